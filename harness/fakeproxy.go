package harness

import (
	"bufio"
	"bytes"
	"encoding/json"
	"fmt"
	"io"
	"net/http"
	"sync"
	"time"

	"verif/sim"
)

// FakeProxy speaks the agent-facing protocol of the inverting proxy from a
// script: pending-list replies, request fetches, and an upload sink that
// records what arrives and when. It is a harness peer (real net/http server
// over SimNet); byte-level fault injection lives in the raw sink (C06).
type FakeProxy struct {
	w  *World
	mu sync.Mutex

	ListCalls []ListCall
	// OnList decides the reply to the n-th list call (0-based). It runs on the
	// connection's goroutine and may sleep. Returning status 0 means "hang until
	// the caller gives up".
	OnList func(n int, r *http.Request) (status int, body []byte)
	// OnFetch may override the reply to a fetch (return false to use the default).
	OnFetch func(id string, attempt int, rw http.ResponseWriter) bool
	// OnUpload may take over an upload completely (return true if handled).
	OnUpload func(id string, attempt int, rw http.ResponseWriter, r *http.Request) bool
	// OnChunk is called for every piece of upload body as it becomes visible.
	OnChunk func(id string, total int, piece []byte)

	Reqs    map[string]*FakeReq
	Uploads map[string][]*Upload
}

type ListCall struct {
	At, Done time.Duration
	Seq      uint64
	DoneSeq  uint64
	Status   int
	Backend  string
}

type FakeReq struct {
	ID      string
	Raw     []byte // serialised client request
	User    string
	NoStart bool
	Fetches int
	Served  int // fetches answered 200 with the full request
}

type Upload struct {
	ID       string
	Attempt  int
	Body     []byte
	Complete bool // body read to EOF without error
	Status   int  // what the sink answered
	ReadErr  string
	Resp     *http.Response // parsed serialised response (Complete only)
	RespBody []byte
	ParseErr string
	At       time.Duration
}

func NewFakeProxy(w *World) *FakeProxy {
	return &FakeProxy{w: w, Reqs: map[string]*FakeReq{}, Uploads: map[string][]*Upload{}}
}

// AddRequest registers a client request the fake proxy will hand out.
func (p *FakeProxy) AddRequest(id string, raw []byte, user string) *FakeReq {
	p.mu.Lock()
	defer p.mu.Unlock()
	r := &FakeReq{ID: id, Raw: raw, User: user}
	p.Reqs[id] = r
	return r
}

// Start serves on proxy:80.
func (p *FakeProxy) Start() {
	p.w.K.Spawn("proxy", func() {
		l, err := sim.Listen("tcp", ":80")
		if err != nil {
			panic(err)
		}
		srv := &http.Server{Handler: http.HandlerFunc(p.serve)}
		srv.Serve(l)
	})
}

func (p *FakeProxy) serve(rw http.ResponseWriter, r *http.Request) {
	id := r.Header.Get("X-Inverting-Proxy-Request-ID")
	switch {
	case id == "":
		p.list(rw, r)
	case r.Method == http.MethodPost:
		p.upload(id, rw, r)
	default:
		p.fetch(id, rw, r)
	}
}

func (p *FakeProxy) list(rw http.ResponseWriter, r *http.Request) {
	p.mu.Lock()
	n := len(p.ListCalls)
	p.ListCalls = append(p.ListCalls, ListCall{At: p.w.K.Now(), Seq: p.w.K.Seq(), Backend: r.Header.Get("X-Inverting-Proxy-Backend-ID")})
	p.mu.Unlock()
	status, body := 200, []byte("[]")
	if p.OnList != nil {
		status, body = p.OnList(n, r)
	}
	if status == 0 {
		<-r.Context().Done()
		status = -1
	} else {
		rw.WriteHeader(status)
		rw.Write(body)
	}
	p.mu.Lock()
	p.ListCalls[n].Done = p.w.K.Now()
	p.ListCalls[n].DoneSeq = p.w.K.Seq()
	p.ListCalls[n].Status = status
	p.mu.Unlock()
}

func (p *FakeProxy) fetch(id string, rw http.ResponseWriter, r *http.Request) {
	p.mu.Lock()
	fr := p.Reqs[id]
	attempt := 0
	if fr != nil {
		attempt = fr.Fetches
		fr.Fetches++
	}
	p.mu.Unlock()
	if fr == nil {
		http.NotFound(rw, r)
		return
	}
	if p.OnFetch != nil && p.OnFetch(id, attempt, rw) {
		return
	}
	if fr.User != "" {
		rw.Header().Set("X-Inverting-Proxy-User-ID", fr.User)
	}
	if !fr.NoStart {
		rw.Header().Set("X-Inverting-Proxy-Request-Start-Time", time.Now().Format(time.RFC3339Nano))
	}
	rw.Header().Set("X-Inverting-Proxy-Request-ID", id)
	rw.WriteHeader(200)
	if _, err := rw.Write(fr.Raw); err == nil {
		p.mu.Lock()
		fr.Served++
		p.mu.Unlock()
	}
}

func (p *FakeProxy) upload(id string, rw http.ResponseWriter, r *http.Request) {
	p.mu.Lock()
	attempt := len(p.Uploads[id])
	u := &Upload{ID: id, Attempt: attempt, At: p.w.K.Now()}
	p.Uploads[id] = append(p.Uploads[id], u)
	p.mu.Unlock()
	if p.OnUpload != nil && p.OnUpload(id, attempt, rw, r) {
		return
	}
	buf := make([]byte, 32<<10)
	var body []byte
	for {
		n, err := r.Body.Read(buf)
		if n > 0 {
			body = append(body, buf[:n]...)
			if p.OnChunk != nil {
				p.OnChunk(id, len(body), buf[:n])
			}
		}
		if err == io.EOF {
			p.mu.Lock()
			u.Complete = true
			p.mu.Unlock()
			break
		}
		if err != nil {
			p.mu.Lock()
			u.ReadErr = err.Error()
			p.mu.Unlock()
			break
		}
	}
	p.mu.Lock()
	u.Body = body
	p.mu.Unlock()
	if !u.Complete {
		return
	}
	resp, err := http.ReadResponse(bufio.NewReader(bytes.NewReader(body)), nil)
	p.mu.Lock()
	if err != nil {
		u.ParseErr = err.Error()
	} else {
		b, err := io.ReadAll(resp.Body)
		if err != nil {
			u.ParseErr = "body: " + err.Error()
		}
		u.Resp = resp
		u.RespBody = b
	}
	u.Status = 200
	p.mu.Unlock()
	rw.WriteHeader(200)
}

// serialiseRequest renders a client request in the wire format the proxy
// hands to the agent.
func serialiseRequest(method, target, host string, hdr http.Header, body []byte) []byte {
	var b bytes.Buffer
	fmt.Fprintf(&b, "%s %s HTTP/1.1\r\nHost: %s\r\n", method, target, host)
	for k, vs := range hdr {
		for _, v := range vs {
			fmt.Fprintf(&b, "%s: %s\r\n", k, v)
		}
	}
	if len(body) > 0 || method == "POST" || method == "PUT" {
		fmt.Fprintf(&b, "Content-Length: %d\r\n", len(body))
	}
	b.WriteString("\r\n")
	b.Write(body)
	return b.Bytes()
}

func jsonList(ids []string) []byte {
	if ids == nil {
		ids = []string{}
	}
	b, _ := json.Marshal(ids)
	return b
}
