package harness

import (
	"fmt"
	"io"
	"net/http"
	"strings"
	"sync"
	"syscall"
	"time"

	"verif/sim"
)

func init() { register("C20", worldC20) }

// worldC20: agent main() + fake proxy + backend with a scripted health
// endpoint; SIGINT/SIGTERM at a tape-chosen instant.
func worldC20(w *World) {
	t := w.T
	w.K.ChaosMult = []int{2, 1, 4}[t.Choice(3, "chaos")]
	w.K.LatencyMenu = []time.Duration{0}
	healthOn := t.Rare(3, 4, "health?")
	interval := []int{1, 2, 5}[t.Choice(3, "interval")]
	threshold := t.Range(1, 4, "threshold")
	// health script: index = n-th health request the backend sees
	nStartFail := t.Range(0, 3, "startfails")
	upLate := time.Duration(0)
	if t.Rare(1, 4, "uplate?") {
		upLate = time.Duration(t.Range(1, 7, "uplate")) * time.Second
	}
	nPeriodic := t.Range(0, 24, "periodic")
	failPct := []int{0, 20, 50, 80}[t.Choice(4, "failpct")]
	var periodic []bool // true = pass
	for i := 0; i < nPeriodic; i++ {
		periodic = append(periodic, !t.Rare(failPct, 100, "fail?"))
	}
	// some health checks are answered late (longer than one interval)
	stallPct := []int{0, 0, 30}[t.Choice(3, "stallpct")]
	var stalls []bool
	for i := 0; i < nStartFail+nPeriodic+8; i++ {
		stalls = append(stalls, t.Rare(stallPct, 100, "stall?"))
	}
	stallBody := t.Rare(1, 4, "stallbody")
	signal := t.Rare(2, 3, "signal?")
	sig := []syscall.Signal{syscall.SIGINT, syscall.SIGTERM}[t.Choice(2, "which")]
	grace := []time.Duration{0, 2 * time.Second, 10 * time.Second, 30 * time.Second, 2800 * time.Millisecond, 900 * time.Millisecond}[t.Choice(6, "grace")]
	sigDelay := []time.Duration{0, time.Millisecond, 500 * time.Millisecond, 999 * time.Millisecond, time.Second, 1001 * time.Millisecond, 3 * time.Second, 12 * time.Second, 31 * time.Second}[t.Choice(9, "sigdelay")]
	workLat := []time.Duration{0, time.Second, 5 * time.Second, 20 * time.Second}[t.Choice(4, "worklat")]
	listDelay := []time.Duration{0, time.Second, 4 * time.Second}[t.Choice(3, "listdelay")]
	respSize := []int{10, 5000, 200 << 10}[t.Choice(3, "respsize")]
	// the signal may also come at a fixed time after start-up (possibly while the agent
	// is still waiting for the backend to become healthy)
	sigEarly := time.Duration(-1)
	if t.Rare(1, 4, "sigearly?") {
		sigEarly = []time.Duration{100 * time.Millisecond, 1500 * time.Millisecond, 3500 * time.Millisecond, 7 * time.Second}[t.Choice(4, "sigearly")]
	}
	// a second signal may follow during the grace period; obtaining the cloud
	// credentials at start-up may take a while
	secondSig := time.Duration(-1)
	if t.Rare(1, 4, "secondsignal?") {
		secondSig = []time.Duration{time.Millisecond, 500 * time.Millisecond, 3 * time.Second}[t.Choice(3, "secondsignal")]
	}
	sig2 := []syscall.Signal{syscall.SIGINT, syscall.SIGTERM}[t.Choice(2, "which2")]
	sim.CloudStartupDelay = []time.Duration{0, 0, 3 * time.Second}[t.Choice(3, "credentialsdelay")]
	// the pending-list endpoint may start failing (from the n-th call on)
	listFailFrom := -1
	if t.Rare(1, 4, "listfails?") {
		listFailFrom = t.Range(1, 4, "listfailfrom")
	}

	fp := NewFakeProxy(w)
	fp.AddRequest("req1", serialiseRequest("GET", "/work", "example.test", http.Header{}, nil), "")
	var mu sync.Mutex
	firstList := make(chan struct{})
	var once sync.Once
	fp.OnList = func(n int, r *http.Request) (int, []byte) {
		once.Do(func() { close(firstList) })
		if n == 0 {
			time.Sleep(listDelay)
			return 200, jsonList([]string{"req1"})
		}
		if listFailFrom >= 0 && n >= listFailFrom {
			w.K.Count("fault.list_5xx")
			return 503, []byte("injected")
		}
		// later polls: long-poll for a while, sometimes listing nothing new
		time.Sleep([]time.Duration{3 * time.Second, 30 * time.Second, 8 * time.Second}[n%3])
		return 200, []byte("[]")
	}
	fp.Start()

	type hc struct {
		at   time.Duration
		pass bool
	}
	var checks []hc
	var workAt, workDone time.Duration = -1, -1
	w.K.Spawn("agenthost", func() {
		if upLate > 0 {
			time.Sleep(upLate)
		}
		l, err := sim.Listen("tcp", ":8080")
		if err != nil {
			panic(err)
		}
		http.Serve(l, http.HandlerFunc(func(rw http.ResponseWriter, r *http.Request) {
			if r.URL.Path == "/healthz" {
				mu.Lock()
				n := len(checks)
				pass := true
				if n < nStartFail {
					pass = false
				} else if p := n - nStartFail - 1; p >= 0 && p < len(periodic) {
					pass = periodic[p]
				}
				stall := n < len(stalls) && stalls[n]
				mu.Unlock()
				if stall {
					// the answer comes, but only after one and a half intervals
					time.Sleep(time.Duration(interval) * 1500 * time.Millisecond)
					w.Probe("health_check_answered_late")
				}
				mu.Lock()
				checks = append(checks, hc{w.K.Now(), pass})
				mu.Unlock()
				if pass {
					rw.WriteHeader(200)
				} else if stallBody && n%2 == 1 {
					// the failure's status line and headers arrive at once, its (announced)
					// body never does
					w.Probe("failing_health_check_with_stalled_body")
					if hj, ok := rw.(http.Hijacker); ok {
						if c, _, err := hj.Hijack(); err == nil {
							fmt.Fprintf(c, "HTTP/1.1 503 Service Unavailable\r\nContent-Length: 4096\r\n\r\nsick")
							time.Sleep(10 * time.Minute)
							c.Close()
						}
					}
				} else {
					rw.WriteHeader(500 + n%4)
				}
				return
			}
			mu.Lock()
			workAt = w.K.Now()
			mu.Unlock()
			if workLat > 0 {
				time.Sleep(workLat)
			}
			rw.Header().Set("X-Echo-Token", "req1")
			rw.Write(tokenBody("req1/resp", respSize))
			mu.Lock()
			workDone = w.K.Now()
			mu.Unlock()
		}))
	})
	args := []string{"-health-check-path=healthz"}
	if healthOn {
		args = append(args, fmt.Sprintf("-health-check-interval-seconds=%d", interval), fmt.Sprintf("-health-check-unhealthy-threshold=%d", threshold))
	}
	if grace > 0 {
		args = append(args, "-graceful-shutdown-timeout="+grace.String())
	}
	startAgent(w, args...)
	var sigAt time.Duration = -1
	var sigSeq uint64
	sentSecond := false
	second := func() {
		if secondSig >= 0 && grace > secondSig {
			time.Sleep(secondSig)
			mu.Lock()
			sentSecond = true
			mu.Unlock()
			w.K.Signal("agenthost", sig2)
		}
	}
	w.K.Spawn("controller", func() {
		if signal && sigEarly >= 0 {
			time.Sleep(sigEarly)
			mu.Lock()
			sigAt = w.K.Now()
			sigSeq = w.K.Seq()
			mu.Unlock()
			w.K.Signal("agenthost", sig)
			second()
		} else if signal {
			select {
			case <-firstList:
				time.Sleep(sigDelay)
				mu.Lock()
				sigAt = w.K.Now()
				sigSeq = w.K.Seq()
				mu.Unlock()
				w.K.Signal("agenthost", sig)
				second()
			case <-time.After(3 * time.Minute):
			}
		}
		// run long enough for every scripted periodic check and the grace period
		time.Sleep(time.Duration(nPeriodic+nStartFail+4)*time.Duration(interval)*time.Second + grace + 45*time.Second)
		w.K.Stop()
	})
	w.K.Horizon = 30 * time.Minute
	w.Sample = map[string]interface{}{"health": healthOn, "interval_s": interval, "threshold": threshold, "start_fails": nStartFail, "up_late": upLate.String(), "periodic": boolString(periodic), "signal": signal, "sig": sig.String(), "grace": grace.String(), "sig_delay": sigDelay.String(), "sig_at_fixed_time": sigEarly.String(), "list_fails_from": listFailFrom, "second_signal_after": secondSig.String(), "credentials_delay": sim.CloudStartupDelay.String(), "work_latency": workLat.String()}
	// tolerance for "exits when ...": the statement fixes the instants, not sub-second details
	const eps = 300 * time.Millisecond
	w.OnCheck(func() {
		var agentExit *sim.ExitRec
		for i := range w.K.Exits {
			if w.K.Exits[i].Node == "agenthost" && agentExit == nil {
				agentExit = &w.K.Exits[i]
			}
		}
		calls := fp.ListCalls
		// ---- health gating -------------------------------------------------
		firstPass := time.Duration(-1)
		firstPassIdx := -1
		for i, c := range checks {
			if c.pass {
				firstPass = c.at
				firstPassIdx = i
				break
			}
		}
		if healthOn {
			if len(calls) > 0 && (firstPass < 0 || calls[0].At < firstPass) {
				w.Violation("health-gating", "first pending-list call at %v but the first passing health check was at %v", calls[0].At, firstPass)
			}
			if firstPass >= 0 {
				w.Probe("health_gated_start")
			}
			if firstPassIdx > 0 || upLate > 0 {
				w.Probe("backend_unhealthy_at_startup")
			}
		}
		// ---- expected exit ---------------------------------------------------
		expUnhealthy := time.Duration(-1)
		if healthOn && firstPassIdx >= 0 {
			bad := 0
			for _, c := range checks[firstPassIdx+1:] {
				if sigAt >= 0 && grace == 0 && c.at > sigAt {
					break
				}
				if c.pass {
					bad = 0
				} else {
					bad++
				}
				if bad >= threshold {
					expUnhealthy = c.at
					break
				}
			}
		}
		expSignal := time.Duration(-1)
		if sigAt >= 0 {
			expSignal = sigAt + grace
		}
		// a signal that arrives before the agent asked for work at all (still gated, or
		// just starting): the statement only says that the agent exits - at the latest
		// when the period ends
		beforeWork := sigAt >= 0 && (len(calls) == 0 || sigSeq < calls[0].Seq)
		if beforeWork && healthOn && (firstPass < 0 || sigAt < firstPass) {
			w.Probe("signal_while_health_gated")
		}
		if sentSecond && !beforeWork {
			w.Probe("second_signal_during_grace_period")
		}
		if listFailFrom >= 0 && sigAt >= 0 && grace > 0 && len(calls) > listFailFrom {
			w.Probe("signal_while_list_calls_fail")
		}
		switch {
		case expUnhealthy >= 0 && (expSignal < 0 || expUnhealthy < expSignal-eps):
			w.Probe("unhealthy_exit_expected")
			if agentExit == nil {
				w.Violation("unhealthy-exit", "%d consecutive periodic health checks failed by %v but the agent kept running", threshold, expUnhealthy)
			} else if agentExit.At < expUnhealthy-eps || agentExit.At > expUnhealthy+eps {
				w.Violation("unhealthy-exit", "agent exited at %v (%q); expected an unhealthy exit at %v", agentExit.At, agentExit.Msg, expUnhealthy)
			}
		case expSignal >= 0 && (expUnhealthy < 0 || expSignal < expUnhealthy-eps):
			if grace > 0 {
				w.Probe("graceful_shutdown")
			} else {
				w.Probe("prompt_shutdown")
			}
			if agentExit == nil {
				w.Violation("shutdown", "signal at %v (grace %v) but the agent never exited", sigAt, grace)
			} else if beforeWork && grace > 0 {
				if agentExit.At < sigAt-eps || agentExit.At > expSignal+eps {
					w.Violation("shutdown", "signal at %v (before the agent had asked for work) with grace %v: agent exited at %v (%q), expected between the signal and %v", sigAt, grace, agentExit.At, agentExit.Msg, expSignal)
				}
			} else if agentExit.At < expSignal-eps || agentExit.At > expSignal+eps {
				w.Violation("shutdown", "signal at %v with grace %v: agent exited at %v (%q), expected at %v", sigAt, grace, agentExit.At, agentExit.Msg, expSignal)
			}
		case expUnhealthy >= 0 && expSignal >= 0:
			// both due at (almost) the same instant: either is acceptable
			if agentExit == nil {
				w.Violation("shutdown", "agent never exited (unhealthy at %v, signal exit at %v)", expUnhealthy, expSignal)
			}
		default:
			if agentExit != nil {
				w.Violation("spurious-exit", "agent exited at %v (%q) although neither the unhealthy threshold was reached nor a signal was sent", agentExit.At, agentExit.Msg)
			}
		}
		// ---- graceful shutdown semantics --------------------------------------
		if sigAt >= 0 && grace > 0 && (expUnhealthy < 0 || expUnhealthy > expSignal) {
			// polls after the signal
			var inflight *ListCall
			after := 0
			for i := range calls {
				c := &calls[i]
				// "before/after the signal" is decided by the global event sequence
				// number, not by the (possibly equal) simulated timestamps
				if c.Seq < sigSeq && (c.DoneSeq == 0 || c.DoneSeq > sigSeq) {
					inflight = c
				}
				if c.Seq > sigSeq {
					after++
				}
			}
			const tiny = 2 * time.Millisecond
			if inflight != nil && inflight.DoneSeq != 0 && inflight.Done > sigAt+tiny {
				for i := range calls {
					if calls[i].Seq > inflight.DoneSeq && calls[i].At > inflight.Done+tiny {
						w.Violation("no-new-polls", "signal at %v; the list call in flight returned at %v, yet another list call started at %v", sigAt, inflight.Done, calls[i].At)
						break
					}
				}
				w.Probe("signal_during_list_call")
			}
			if inflight == nil {
				for i := range calls {
					if calls[i].Seq > sigSeq && calls[i].At > sigAt+tiny {
						w.Violation("no-new-polls", "no list call was in flight at the signal (%v), yet a list call started at %v", sigAt, calls[i].At)
						break
					}
				}
				if len(calls) == 0 || calls[0].Seq > sigSeq {
					w.Probe("signal_before_first_list_call")
				}
			}
			if after > 1 {
				w.Violation("no-new-polls", "%d list calls started at or after the signal (%v)", after, sigAt)
			}
			// a request already at the backend whose response is ready in time is answered in full
			if workAt >= 0 && workAt < sigAt-tiny && workDone >= 0 && workDone < sigAt+grace-time.Second {
				ups := fp.Uploads["req1"]
				ok := false
				for _, u := range ups {
					if u.Complete && u.ParseErr == "" && len(u.RespBody) == respSize {
						ok = true
					}
				}
				if !ok {
					w.Violation("inflight-request", "request reached the backend at %v, response ready at %v, signal at %v with grace %v: the response was not delivered in full to the proxy", workAt, workDone, sigAt, grace)
				}
				if workDone > sigAt {
					w.Probe("response_completed_during_grace")
				}
			}
		}
		_ = io.EOF
	})
}

func boolString(bs []bool) string {
	var sb strings.Builder
	for _, b := range bs {
		if b {
			sb.WriteByte('P')
		} else {
			sb.WriteByte('f')
		}
	}
	return sb.String()
}
