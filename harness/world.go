package harness

import (
	"fmt"
	"io"
	"log"
	"net"
	"net/http"
	"os"
	"sort"
	"strings"
	"sync"
	"testing/synctest"
	"time"

	"github.com/google/uuid"
	"github.com/gorilla/websocket"

	"verif/sim"
)

// Result is the one line a simulated run prints.
type Result struct {
	World     string         `json:"world"`
	Seed      uint64         `json:"seed"`
	Outcome   string         `json:"outcome"` // ok | violation | inconclusive | error
	Oracle    string         `json:"oracle,omitempty"`
	Msg       string         `json:"msg,omitempty"`
	Steps     int            `json:"steps"`
	NTSteps   int            `json:"nt_steps"`
	SimMs     int64          `json:"sim_ms"`
	LogHash   string         `json:"log_hash"`
	SchedHash string         `json:"sched_hash"`
	Stats     map[string]int `json:"stats,omitempty"`
	TapeLen   int            `json:"tape_len"`
	Tape      []int32        `json:"tape,omitempty"`
	Labels    []string       `json:"labels,omitempty"`
	Sample    interface{}    `json:"sample,omitempty"`
	Exits     []sim.ExitRec  `json:"exits,omitempty"`
	Trace     string         `json:"trace,omitempty"`
	AllViol   []string       `json:"all_violations,omitempty"`
}

type violation struct{ oracle, msg string }

// World is the per-run context handed to a world function.
type World struct {
	K    *sim.Kernel
	T    *sim.Tape
	Tier string
	Cfg  string
	// ShimChunked: the browser side sends its websocket-shim posts with chunked
	// transfer encoding (no Content-Length), as clients do for streamed bodies
	ShimChunked bool

	mu     sync.Mutex
	viols  []violation
	incon  string
	Sample interface{}
	check  func()
}

type worldFunc func(w *World)

var worlds = map[string]worldFunc{}

func register(name string, f worldFunc) { worlds[name] = f }

// Violation records a property violation found by an oracle.
func (w *World) Violation(oracle, format string, a ...interface{}) {
	w.mu.Lock()
	w.viols = append(w.viols, violation{oracle, fmt.Sprintf(format, a...)})
	w.mu.Unlock()
}

// Inconclusive marks the run as not usable (never reported as a violation).
func (w *World) Inconclusive(format string, a ...interface{}) {
	w.mu.Lock()
	if w.incon == "" {
		w.incon = fmt.Sprintf(format, a...)
	}
	w.mu.Unlock()
}

// Probe counts that a condition of interest was reached.
func (w *World) Probe(name string) { w.K.Count("probe." + name) }

// OnCheck registers the end-of-run oracle, run on the driver goroutine after
// the last quiescent point, ordered after everything the run did.
func (w *World) OnCheck(f func()) { w.check = f }

// Client returns an http.Client over SimNet with its own connection pool.
func (w *World) Client() *http.Client {
	tr := sim.NewTransport()
	tr.DisableCompression = true
	return &http.Client{Transport: tr}
}

func envOn(name string) bool {
	v := os.Getenv(name)
	return v != "" && v != "0"
}

func runWorld(name string, seed uint64, replay []int32) *Result {
	cfg := ""
	if i := strings.Index(name, "/"); i >= 0 {
		cfg = name[i+1:]
		name = name[:i]
	}
	res := &Result{World: name, Seed: seed}
	f := worlds[name]
	if f == nil {
		res.Outcome = "error"
		res.Msg = "unknown world " + name
		return res
	}
	var tape *sim.Tape
	if replay != nil {
		tape = sim.NewReplayTape(replay)
		tape.Seed = seed // streams derived from the seed (back-off jitter) must replay too
	} else {
		tape = sim.NewTape(seed)
	}
	k := sim.NewKernel(tape)
	k.SetTrace(envOn("VERIF_TRACE"))
	if os.Getenv("VERIF_LOG") == "2" {
		k.DumpNet = func(conn int, to string, dir int, data []byte) {
			s := string(data)
			if len(s) > 160 {
				s = s[:80] + "..." + s[len(s)-80:]
			}
			fmt.Fprintf(os.Stderr, "NET %v conn%d to=%s dir=%d %dB %q\n", k.Now(), conn, to, dir, len(data), s)
		}
	}
	if !envOn("VERIF_LOG") {
		log.SetOutput(io.Discard)
	} else {
		log.SetFlags(log.Lmicroseconds)
	}
	// process-wide seams that already exist in the code base and its libraries
	// every dial/listen of the process goes to SimNet (hook in the overlaid net package)
	net.SimDialContext = sim.DialContext
	net.SimListen = sim.Listen
	http.DefaultTransport.(*http.Transport).DialContext = sim.DialContext
	http.DefaultTransport.(*http.Transport).Proxy = nil
	websocket.DefaultDialer = &websocket.Dialer{NetDialContext: sim.DialContext, HandshakeTimeout: 45 * time.Second}
	uuid.SetRand(&sim.TapeReader{R: tape.Sub("uuid")})
	tier := strings.TrimSpace(os.Getenv("VERIF_TIER"))
	if tier == "" {
		tier = "quick"
	}
	w := &World{K: k, T: tape, Tier: tier, Cfg: cfg}
	f(w)
	k.Run()
	// The driver's sync events were ignored during the run; this Wait orders
	// the oracle after everything every goroutine did before it blocked.
	synctest.Wait()
	if w.check != nil {
		w.check()
	}
	res.Steps = k.Steps()
	res.NTSteps = k.NontrivialSteps
	res.SimMs = int64(k.Now() / time.Millisecond)
	res.LogHash = fmt.Sprintf("%016x", k.Hash())
	res.SchedHash = fmt.Sprintf("%016x", k.SchedHash())
	res.Stats = k.Stats()
	res.TapeLen = len(tape.Rec)
	res.Sample = w.Sample
	res.Exits = k.Exits
	if envOn("VERIF_EMIT_TAPE") {
		res.Tape = tape.Rec
		if os.Getenv("VERIF_EMIT_TAPE") == "2" {
			res.Labels = tape.Labels
		}
	}
	if envOn("VERIF_TRACE") {
		res.Trace = string(k.Trace())
	}
	switch {
	case k.StepCap:
		// a run cut short by the step cap asserts nothing (liveness oracles
		// would misfire); it is counted, never reported
		res.Outcome = "inconclusive"
		res.Msg = "step cap reached"
	case len(w.viols) > 0:
		res.Outcome = "violation"
		sort.SliceStable(w.viols, func(i, j int) bool { return w.viols[i].oracle < w.viols[j].oracle })
		res.Oracle = w.viols[0].oracle
		res.Msg = w.viols[0].msg
		for _, v := range w.viols {
			res.AllViol = append(res.AllViol, v.oracle+": "+v.msg)
		}
	case w.incon != "":
		res.Outcome = "inconclusive"
		res.Msg = w.incon
	default:
		res.Outcome = "ok"
	}
	return res
}
