package harness

import (
	"bufio"
	"bytes"
	"encoding/json"
	"errors"
	"fmt"
	"io"
	"net/http"
	"net/http/httptest"
	"sort"
	"strings"
	"sync"
	"time"

	_ "github.com/google/inverting-proxy/app" // registers the App Engine proxy's handler
	"google.golang.org/appengine/v2/simplatform"
)

func init() {
	register("C17", worldC17)
	register("C18", worldC18)
	register("C19", worldC19)
}

type gaeResult struct {
	Status int
	Header http.Header
	Body   []byte
	Took   time.Duration
	Done   bool
	At     time.Duration
}

// gaeCall runs one request against the App Engine proxy the way the platform would.
// cutBody is a request body that ends with io.ErrUnexpectedEOF after its bytes
// (the caller's connection was closed partway through the upload).
type cutBody struct{ r *bytes.Reader }

func (c *cutBody) Read(p []byte) (int, error) {
	n, err := c.r.Read(p)
	if err == io.EOF {
		return n, io.ErrUnexpectedEOF
	}
	return n, err
}

func gaeCall(w *World, plat *simplatform.Platform, service string, id simplatform.Identity, method, target string, hdr http.Header, body []byte) *gaeResult {
	return gaeCallBody(w, plat, service, id, method, target, hdr, bytes.NewReader(body))
}

func gaeCallBody(w *World, plat *simplatform.Platform, service string, id simplatform.Identity, method, target string, hdr http.Header, body io.Reader) *gaeResult {
	req := httptest.NewRequest(method, "http://app.example.test"+target, body)
	for k, vs := range hdr {
		req.Header[k] = vs
	}
	rec := httptest.NewRecorder()
	t0 := w.K.Now()
	res := &gaeResult{At: t0}
	plat.Serve(rec, req, service, id)
	res.Status = rec.Code
	res.Header = rec.Header()
	res.Body = rec.Body.Bytes()
	res.Took = w.K.Now() - t0
	res.Done = true
	return res
}

type gaeBackend struct {
	BackendID    string   `json:"id"`
	EndUser      string   `json:"endUser"`
	BackendUser  string   `json:"backendUser"`
	PathPrefixes []string `json:"pathPrefixes"`
}

var adminID = simplatform.Identity{UserEmail: "admin@example.com", UserAdmin: true}

func agentHdr(backend, reqID string) http.Header {
	h := http.Header{}
	if backend != "" {
		h.Set("X-Inverting-Proxy-Backend-ID", backend)
	}
	if reqID != "" {
		h.Set("X-Inverting-Proxy-Request-ID", reqID)
	}
	return h
}

func indexOf(ss []string, s string) int {
	for i, x := range ss {
		if x == s {
			return i
		}
	}
	return 0
}

func snapshotDiff(a, b map[string]string) string {
	var d []string
	for k, v := range a {
		if b[k] != v {
			d = append(d, "changed/removed "+k)
		}
	}
	for k := range b {
		if _, ok := a[k]; !ok {
			d = append(d, "added "+k)
		}
	}
	sort.Strings(d)
	return strings.Join(d, "; ")
}

// requestEntities lists, per backend, the request IDs stored in the datastore.
func requestEntities(plat *simplatform.Platform) map[string][]string {
	out := map[string][]string{}
	for _, k := range plat.EntityKeys() {
		// keys look like /req:"<backend>":<requestID>
		if strings.HasPrefix(k, "/req:") {
			rest := k[5:]
			if i := strings.LastIndex(rest, "\":"); i > 0 {
				b := strings.Trim(rest[:i+1], "\"")
				out[b] = append(out[b], rest[i+2:])
			}
		}
	}
	return out
}

// ---- C17 --------------------------------------------------------------------

func worldC17(w *World) {
	t := w.T
	w.K.ChaosMult = []int{2, 1, 4}[t.Choice(3, "chaos")]
	plat := simplatform.New()
	users := []string{"alice@example.com", "bob@example.com", "carol@example.com"}
	agents := []string{"agent-a@svc.example", "agent-b@svc.example", "agent-c@svc.example"}
	nB := t.Range(1, 4, "backends")
	var backends []*gaeBackend
	for i := 0; i < nB; i++ {
		// some backend IDs are related through a separator (IDs are chosen by administrators)
		b := &gaeBackend{BackendID: []string{"team", "team:eu", "be2", "be3"}[i], BackendUser: agents[t.Choice(len(agents), "buser")]}
		b.EndUser = append(users, "allUsers")[t.Choice(4, "enduser")]
		b.PathPrefixes = []string{[]string{"/", "/app", "/app/x", "/other"}[t.Choice(4, "prefix")]}
		backends = append(backends, b)
	}
	type step struct {
		kind string
		desc string
		run  func() *gaeResult
		want func(r *gaeResult, before, after map[string]string)
	}
	acl := map[string]*gaeBackend{} // reference, from successful admin calls
	var steps []step
	idents := func() (simplatform.Identity, string) {
		switch t.Choice(8, "identity") {
		case 7:
			// an App Engine sign-in with the backend user's address, but no OAuth token
			return simplatform.Identity{UserEmail: agents[t.Choice(3, "a2")]}, "signed-in user with an agent account's address (no OAuth)"
		case 6:
			w.Probe("oauth_token_without_email")
			return simplatform.Identity{OAuthNoEmail: true}, "oauth account without an e-mail address"
		case 0:
			return simplatform.Identity{}, "anonymous"
		case 1:
			return simplatform.Identity{UserEmail: users[t.Choice(3, "u")]}, "signed-in user"
		case 2:
			return simplatform.Identity{OAuthEmail: agents[t.Choice(3, "a")]}, "oauth agent"
		case 3:
			return simplatform.Identity{OAuthEmail: users[0], UserEmail: users[0]}, "oauth user"
		case 4:
			return adminID, "admin"
		default:
			return simplatform.Identity{OAuthEmail: "root@svc.example", OAuthAdmin: true}, "oauth admin"
		}
	}
	// phase 1: admin API, by admins and by others
	for _, b := range backends {
		b := b
		id, who := idents()
		isAdmin := id.UserAdmin || id.OAuthAdmin
		body, _ := json.Marshal(b)
		steps = append(steps, step{kind: "admin-add", desc: fmt.Sprintf("add backend %s by %s", b.BackendID, who),
			run: func() *gaeResult { return gaeCall(w, plat, "api", id, "POST", "/api/backends", nil, body) },
			want: func(r *gaeResult, before, after map[string]string) {
				if isAdmin {
					if r.Status != 200 {
						w.Violation("admin", "an administrator could not add a backend | %s: %d %s", who, r.Status, r.Body)
					} else {
						acl[b.BackendID] = b
					}
					return
				}
				if r.Status == 200 || snapshotDiff(before, after) != "" {
					w.Violation("admin", "the backend-administration API answered a non-administrator | add by %s: status %d, store changes: %s", who, r.Status, snapshotDiff(before, after))
				}
				w.Probe("admin_api_refused")
			}})
		if !isAdmin {
			// make sure the backend exists for the later phases
			steps = append(steps, step{kind: "admin-add", desc: "add backend " + b.BackendID + " by admin",
				run:  func() *gaeResult { return gaeCall(w, plat, "api", adminID, "POST", "/api/backends", nil, body) },
				want: func(r *gaeResult, _, _ map[string]string) { acl[b.BackendID] = b }})
		}
	}
	{
		id, who := idents()
		isAdmin := id.UserAdmin || id.OAuthAdmin
		steps = append(steps, step{kind: "admin-list", desc: "list backends by " + who,
			run: func() *gaeResult { return gaeCall(w, plat, "api", id, "GET", "/api/backends", nil, nil) },
			want: func(r *gaeResult, before, after map[string]string) {
				if !isAdmin {
					if r.Status == 200 || bytes.Contains(r.Body, []byte("be0")) {
						w.Violation("admin", "the backend list was given to a non-administrator | %s: %d %.80q", who, r.Status, r.Body)
					}
				} else if r.Status != 200 {
					w.Violation("admin", "an administrator could not list backends | %d", r.Status)
				}
			}})
		del := backends[t.Choice(nB, "delwhich")]
		id2, who2 := idents()
		isAdmin2 := id2.UserAdmin || id2.OAuthAdmin
		if t.Rare(1, 2, "delete?") {
			steps = append(steps, step{kind: "admin-delete", desc: fmt.Sprintf("delete backend %s by %s", del.BackendID, who2),
				run: func() *gaeResult {
					return gaeCall(w, plat, "api", id2, "DELETE", "/api/backends/"+del.BackendID, nil, nil)
				},
				want: func(r *gaeResult, before, after map[string]string) {
					if isAdmin2 {
						if r.Status == 200 {
							delete(acl, del.BackendID)
						}
						return
					}
					if r.Status == 200 || snapshotDiff(before, after) != "" {
						w.Violation("admin", "the backend-administration API answered a non-administrator | delete by %s: status %d, changes %s", who2, r.Status, snapshotDiff(before, after))
					}
				}})
		}
	}
	// phase 2: a user request per backend so that there is something stored (routed only if live)
	for _, b := range backends {
		b := b
		steps = append(steps, step{kind: "agent-list-own", desc: "own agent polls " + b.BackendID,
			run: func() *gaeResult {
				return gaeCall(w, plat, "agent", simplatform.Identity{OAuthEmail: b.BackendUser}, "GET", "/agent/pending", agentHdr(b.BackendID, ""), nil)
			},
			want: func(r *gaeResult, _, _ map[string]string) {
				_, registered := acl[b.BackendID]
				if registered && r.Status != 200 {
					w.Violation("agent", "the registered backend user was refused | list for %s: %d %s", b.BackendID, r.Status, r.Body)
				}
				if !registered && r.Status != 401 {
					w.Violation("agent", "an agent call for an unregistered backend was not refused with 401 | %s: %d", b.BackendID, r.Status)
				}
			}})
	}
	nUserReq := t.Range(1, 3, "userreqs")
	for i := 0; i < nUserReq; i++ {
		u := append(users, "", "")[t.Choice(5, "who")]
		// a signed-in user who is known by a federated identity only has no e-mail
		// address: no backend is registered for such a user
		federated := u == "" && t.Rare(1, 2, "federated")
		path := []string{"/", "/app/page", "/app/x/y", "/other/z", "/nomatch"}[t.Choice(5, "path")]
		i := i
		steps = append(steps, step{kind: "user", desc: fmt.Sprintf("user %q (federated only: %v) requests %s", u, federated, path),
			run: func() *gaeResult {
				id := simplatform.Identity{UserEmail: u}
				if federated {
					id.Federated = "https://idp.example/u/4711"
					w.Probe("federated_user_without_email")
				}
				return gaeCall(w, plat, "default", id, "GET", fmt.Sprintf("%s?tok=u%d", path, i), nil, nil)
			},
			want: func(r *gaeResult, before, after map[string]string) {
				if u == "" && !federated {
					if r.Status != 401 || snapshotDiff(before, after) != "" {
						w.Violation("user", "a request without a signed-in user was not refused | status %d changes %s", r.Status, snapshotDiff(before, after))
					}
					return
				}
				// where was it stored?
				for k := range after {
					if _, old := before[k]; old || !strings.HasPrefix(k, "ds:/req:") {
						continue
					}
					rest := k[8:]
					j := strings.LastIndex(rest, "\":")
					bid := strings.Trim(rest[:j+1], "\"")
					b := acl[bid]
					if b == nil || (b.EndUser != u && b.EndUser != "allUsers") {
						w.Violation("user", "an end user's request was stored for a backend that is registered neither for that user nor for allUsers | user %s backend %s (%+v)", u, bid, b)
					}
					w.Probe("user_request_routed")
				}
			}})
	}
	// phase 3: agent calls with every kind of identity against every backend and request ID
	nAgentCalls := t.Range(3, 10, "agentcalls")
	for i := 0; i < nAgentCalls; i++ {
		id, who := idents()
		b := backends[t.Choice(nB, "target")]
		bid := b.BackendID
		if t.Rare(1, 6, "unknownbackend") {
			bid = "nosuch"
		}
		ep := []string{"pending", "request", "response"}[t.Choice(3, "endpoint")]
		ridKind := t.Choice(4, "ridkind") // own, other's, unknown, crafted from another backend's ID and request ID
		readFault := t.Rare(1, 3, "readfault")
		steps = append(steps, step{kind: "agent", desc: fmt.Sprintf("%s calls /agent/%s for %s (request of kind %d)", who, ep, bid, ridKind),
			run: func() *gaeResult {
				reqs := requestEntities(plat)
				rid := "unknown-id"
				switch ridKind {
				case 0:
					if l := reqs[bid]; len(l) > 0 {
						rid = l[0]
					}
				case 1:
					for ob, l := range reqs {
						if ob != bid && len(l) > 0 {
							rid = l[0]
						}
					}
				case 3:
					for ob, l := range reqs {
						if strings.HasPrefix(ob, bid+":") && len(l) > 0 {
							rid = ob[len(bid)+1:] + ":" + l[0]
							w.Probe("crafted_request_id")
						}
					}
				}
				if readFault && ep == "response" {
					// reading the named request fails with a storage error during this call
					plat.Fault = func(r *simplatform.RPC) error {
						if r.Service == "datastore_v3" && r.Method == "Get" && len(r.Keys) > 0 && strings.HasPrefix(r.Keys[0], "/req:") {
							w.K.Count("fault.request_read")
							return errors.New("injected datastore failure")
						}
						return nil
					}
					defer func() { plat.Fault = nil }()
				}
				method, body := "GET", []byte(nil)
				if ep == "response" {
					method, body = "POST", []byte("HTTP/1.1 200 OK\r\nContent-Length: 2\r\n\r\nok")
				}
				h := agentHdr(bid, rid)
				if ep == "pending" {
					h = agentHdr(bid, "")
				}
				r := gaeCall(w, plat, "agent", id, method, "/agent/"+ep, h, body)
				r.Header.Set("X-Harness-Rid", rid)
				return r
			},
			want: func(r *gaeResult, before, after map[string]string) {
				reg := acl[bid]
				authorised := reg != nil && id.OAuthEmail != "" && id.OAuthEmail == reg.BackendUser
				if authorised {
					w.Probe("authorised_agent_call")
					if r.Status == 401 {
						w.Violation("agent", "the registered backend user was refused | %s by %s: 401 %s", ep, who, r.Body)
					}
					// touches only that backend's requests
					for k := range after {
						if before[k] != after[k] && strings.HasPrefix(k, "ds:/req:") && !strings.HasPrefix(k, "ds:/req:\""+bid+"\"") {
							w.Violation("agent", "an agent call changed a request of another backend | %s for %s changed %s", ep, bid, k)
						}
					}
					rid := r.Header.Get("X-Harness-Rid")
					if ep == "request" && r.Status == 200 && (ridKind == 1 || ridKind == 3) && rid != "unknown-id" {
						w.Violation("agent", "an agent fetched a request that belongs to another backend | %s fetched %s", bid, rid)
					}
					own := map[string]bool{}
					for _, x := range requestEntities(plat)[bid] {
						own[x] = true
					}
					for k := range after {
						if before[k] != after[k] && strings.HasPrefix(k, "ds:/response:") && !own[k[len("ds:/response:"):]] {
							w.Violation("agent", "an agent call stored a response for a request that does not belong to its backend | %s for %s wrote %s", ep, bid, k)
						}
					}
					return
				}
				w.Probe("unauthorised_agent_call")
				if r.Status != 401 {
					w.Violation("agent", "an agent call by a caller who is not the backend's registered user was not refused with 401 | %s by %s for %s: %d", ep, who, bid, r.Status)
				}
				if d := snapshotDiff(before, after); d != "" {
					w.Violation("agent", "a refused agent call changed the store | %s by %s: %s", ep, who, d)
				}
				for _, l := range requestEntities(plat) {
					for _, rid := range l {
						if bytes.Contains(r.Body, []byte(rid)) {
							w.Violation("agent", "a refused agent call disclosed a request ID | %s", rid)
						}
					}
				}
				if bytes.Contains(r.Body, []byte("tok=")) || bytes.Contains(r.Body, []byte("HTTP/1.1")) {
					w.Violation("agent", "a refused agent call disclosed stored bytes | %.60q", r.Body)
				}
			}})
	}
	// phase 4: an administrator re-registers a backend for another agent identity
	if t.Rare(2, 3, "reregister") {
		b := backends[t.Choice(nB, "rereg")]
		oldUser := b.BackendUser
		newUser := agents[(t.Choice(2, "newuser")+1+indexOf(agents, oldUser))%len(agents)]
		call := func(user, ep string) func() *gaeResult {
			return func() *gaeResult {
				method, body := "GET", []byte(nil)
				if ep == "response" {
					method, body = "POST", []byte("HTTP/1.1 200 OK\r\nContent-Length: 2\r\n\r\nok")
				}
				return gaeCall(w, plat, "agent", simplatform.Identity{OAuthEmail: user}, method, "/agent/"+ep, agentHdr(b.BackendID, "unknown-id"), body)
			}
		}
		expect := func(user string, what string) func(r *gaeResult, before, after map[string]string) {
			return func(r *gaeResult, before, after map[string]string) {
				reg := acl[b.BackendID]
				authorised := reg != nil && reg.BackendUser == user
				if authorised && r.Status == 401 {
					w.Violation("agent", "the registered backend user was refused | %s", what)
				}
				if !authorised && r.Status != 401 {
					w.Violation("agent", "an agent call by a caller who is no longer (or not) the backend's registered user was not refused with 401 | %s: %d", what, r.Status)
				}
				if !authorised {
					w.Probe("reregistered_old_agent")
				}
			}
		}
		nb := *b
		nb.BackendUser = newUser
		nbody, _ := json.Marshal(&nb)
		steps = append(steps,
			step{kind: "agent", desc: "old agent fetches before re-registration", run: call(oldUser, "request"), want: expect(oldUser, "before re-registration")},
			step{kind: "admin-add", desc: "admin re-registers " + b.BackendID + " for " + newUser,
				run: func() *gaeResult { return gaeCall(w, plat, "api", adminID, "POST", "/api/backends", nil, nbody) },
				want: func(r *gaeResult, _, _ map[string]string) {
					if r.Status == 200 {
						acl[b.BackendID] = &nb
					}
				}},
			step{kind: "agent", desc: "old agent fetches after re-registration", run: call(oldUser, "request"), want: expect(oldUser, "old agent identity after the backend was re-registered for another identity")},
			step{kind: "agent", desc: "old agent responds after re-registration", run: call(oldUser, "response"), want: expect(oldUser, "old agent identity after the backend was re-registered for another identity")},
			step{kind: "agent", desc: "new agent fetches after re-registration", run: call(newUser, "request"), want: expect(newUser, "new agent identity")},
		)
	}
	// phase 5: the rightful agent and an intruder call for the same backend at almost
	// the same moment while the datastore is slow
	if t.Rare(1, 2, "concurrentpair") {
		b := backends[t.Choice(nB, "pairtarget")]
		ep := []string{"pending", "request"}[t.Choice(2, "pairendpoint")]
		intruder := agents[(indexOf(agents, b.BackendUser)+1+t.Choice(2, "intruder"))%len(agents)]
		gap := []time.Duration{0, 10 * time.Millisecond, 40 * time.Millisecond}[t.Choice(3, "pairgap")]
		steps = append(steps, step{kind: "agent", desc: fmt.Sprintf("%s and the rightful agent call /agent/%s for %s %v apart, datastore slow", intruder, ep, b.BackendID, gap),
			run: func() *gaeResult {
				plat.Latency = func(*simplatform.RPC) time.Duration { return 50 * time.Millisecond }
				defer func() { plat.Latency = nil }()
				rid := "unknown-id"
				if l := requestEntities(plat)[b.BackendID]; len(l) > 0 {
					rid = l[0]
				}
				h := agentHdr(b.BackendID, rid)
				if ep == "pending" {
					h = agentHdr(b.BackendID, "")
				}
				var wg sync.WaitGroup
				wg.Add(1)
				go func() {
					defer wg.Done()
					// the long poll of a rightful "pending" call ends by itself
					gaeCall(w, plat, "agent", simplatform.Identity{OAuthEmail: acl0(acl, b)}, "GET", "/agent/"+ep, h, nil)
				}()
				time.Sleep(gap)
				r := gaeCall(w, plat, "agent", simplatform.Identity{OAuthEmail: intruder}, "GET", "/agent/"+ep, h, nil)
				wg.Wait()
				return r
			},
			want: func(r *gaeResult, before, after map[string]string) {
				reg := acl[b.BackendID]
				if reg != nil && reg.BackendUser == intruder {
					return // (re-registered for this very identity)
				}
				w.Probe("intruder_concurrent_with_rightful_agent")
				if r.Status != 401 {
					w.Violation("agent", "an agent call by a caller who is not the backend's registered user was not refused with 401 | %s by %s for %s, concurrent with the rightful agent's call: %d", ep, intruder, b.BackendID, r.Status)
				}
				if bytes.Contains(r.Body, []byte("tok=")) {
					w.Violation("agent", "a refused agent call disclosed stored bytes | %.60q", r.Body)
				}
			}})
	}
	var descs []string
	for _, s := range steps {
		descs = append(descs, s.desc)
	}
	w.Sample = map[string]interface{}{"backends": backends, "steps": descs}
	w.K.Horizon = 3 * time.Hour
	w.K.Spawn("gae", func() {
		for _, s := range steps {
			before := plat.Snapshot()
			r := s.run()
			after := plat.Snapshot()
			if !r.Done {
				w.Violation("hang", "a call did not return | %s", s.desc)
				break
			}
			s.want(r, before, after)
		}
		w.K.Stop()
	})
	w.OnCheck(func() {})
}

// ---- C18 --------------------------------------------------------------------

// acl0 is the identity currently registered for the backend (its original one if
// the reference has no entry).
func acl0(acl map[string]*gaeBackend, b *gaeBackend) string {
	if r := acl[b.BackendID]; r != nil {
		return r.BackendUser
	}
	return b.BackendUser
}

func worldC18(w *World) {
	t := w.T
	w.K.ChaosMult = []int{2, 1, 4}[t.Choice(3, "chaos")]
	plat := simplatform.New()
	users := []string{"alice@example.com", "bob@example.com"}
	if t.Rare(1, 3, "mixedcase-user") {
		// (the platform reports an account's address as the account spells it)
		users[0] = "Alice.Smith@Example.com"
		w.Probe("end_user_address_with_upper_case_letters")
	}
	prefixMenu := []string{"/", "/a", "/a/", "/a/b", "/a/b/c", "/ab", "/b", "", "/a/b/", "/x/y/z"}
	nB := t.Range(1, 6, "backends")
	var backends []*gaeBackend
	for i := 0; i < nB; i++ {
		b := &gaeBackend{BackendID: fmt.Sprintf("be%d", i), BackendUser: "agent@svc.example"}
		b.EndUser = []string{users[0], users[0], users[1], "allUsers"}[t.Choice(4, "enduser")]
		np := t.Range(1, 3, "nprefix")
		for j := 0; j < np; j++ {
			b.PathPrefixes = append(b.PathPrefixes, prefixMenu[t.Choice(len(prefixMenu), "prefix")])
		}
		backends = append(backends, b)
	}
	// one owner may have a great many registrations (stale ones stay registered until
	// the clean-up removes them): more than a query page worth, sorting before the rest
	nFill := 0
	if t.Rare(1, 12, "manybackends") {
		nFill = []int{501, 620}[t.Choice(2, "nfill")]
		owner := []string{users[0], users[1], "allUsers"}[t.Choice(3, "fillowner")]
		for i := 0; i < nFill; i++ {
			backends = append(backends, &gaeBackend{BackendID: fmt.Sprintf("aa%04d", i), BackendUser: "agent@svc.example", EndUser: owner, PathPrefixes: []string{"/zzfill"}})
		}
		w.Probe("owner_with_more_than_500_backends")
	}
	// which agents poll, and how long ago relative to the user requests
	type pollPlan struct {
		polls bool
		ago   time.Duration
	}
	plans := make([]pollPlan, nB)
	for i := range plans {
		plans[i].polls = !t.Rare(1, 4, "neverpolls")
		plans[i].ago = []time.Duration{time.Second, 2 * time.Minute, 4*time.Minute + 58*time.Second, 5*time.Minute + 2*time.Second, 20 * time.Minute}[t.Choice(5, "ago")]
	}
	lookupFault := t.Rare(1, 6, "lookupfault")
	lookupFaultKind := t.Choice(2, "lookupfaultkind")
	// a busy backend: a request is pending for it, so its agent's polls return at
	// once, every 20 s over more than the liveness window; storing the liveness
	// record is slower than the queries
	busy := -1
	if t.Rare(1, 4, "busybackend") {
		busy = t.Choice(nB, "busywhich")
		plans[busy].polls = false // driven separately
	}
	cronFirst := t.Rare(1, 3, "cronfirst")
	nReq := t.Range(1, 5, "requests")
	type ureq struct {
		user, path string
		res        *gaeResult
		stored     string
		round      int
		tok        string
		fixed      string // the backend that held the request, when that is known before the end
		repeat     bool   // a second lookup with exactly the URL of an answered first one
	}
	// what the registrations looked like when a round of requests was issued
	type roundState struct {
		backends []*gaeBackend
		lastPoll map[string]time.Duration
		start    time.Duration
	}
	var rounds []roundState
	var reqs []*ureq
	for i := 0; i < nReq; i++ {
		reqs = append(reqs, &ureq{tok: fmt.Sprintf("q%d", i), user: users[t.Choice(2, "user")], path: []string{"/", "/a", "/a/b", "/a/b/c/d", "/abc", "/b/x", "/zzz", "/a/", "/x/y/z/w"}[t.Choice(9, "path")]})
	}
	// a second round: while the first requests are still waiting, the registrations
	// change and the same users ask for the same paths again
	change := t.Pick("change", 3, 1, 1)
	var added *gaeBackend
	delIdx := -1
	switch change {
	case 1:
		added = &gaeBackend{BackendID: "be-new", BackendUser: "agent@svc.example", EndUser: []string{users[0], users[1], "allUsers"}[t.Choice(3, "newuser")]}
		added.PathPrefixes = []string{reqs[t.Choice(nReq, "newprefix")].path}
	case 2:
		delIdx = t.Choice(nB, "delete")
	}
	if change != 0 && !lookupFault {
		for i := 0; i < nReq; i++ {
			reqs = append(reqs, &ureq{tok: fmt.Sprintf("q%d", nReq+i), user: reqs[i].user, path: reqs[i].path, round: 1})
		}
	}
	// with a deletion: the requests held by the doomed backend are answered first
	// (200, no Cache-Control), and the same users then ask for exactly the same URLs
	answerFirst := change == 2 && !lookupFault && t.Rare(1, 2, "answerfirst")
	var lpMuSnap *sync.Mutex
	snapshot := func(at time.Duration, lastPoll map[string]time.Duration) {
		if lpMuSnap != nil {
			lpMuSnap.Lock()
			defer lpMuSnap.Unlock()
		}
		lp := map[string]time.Duration{}
		for k, v := range lastPoll {
			lp[k] = v
		}
		rounds = append(rounds, roundState{backends: append([]*gaeBackend(nil), backends...), lastPoll: lp, start: at})
	}
	w.Sample = map[string]interface{}{"backends": backends[:nB], "filler_backends": nFill, "plans": fmt.Sprintf("%+v", plans), "requests": fmt.Sprintf("%d", nReq)}
	w.K.Horizon = 3 * time.Hour
	lastPoll := map[string]time.Duration{}
	var reqStart time.Duration
	// which backend holds each request: the stored entity's bytes contain the token
	stored := map[string]string{}
	storedID := map[string]string{}
	collectStored := func() {
		for b, ids := range requestEntities(plat) {
			for _, id := range ids {
				r := gaeCall(w, plat, "agent", simplatform.Identity{OAuthEmail: "agent@svc.example"}, "GET", "/agent/request", agentHdr(b, id), nil)
				for _, q := range reqs {
					if bytes.Contains(r.Body, []byte("tok="+q.tok+" ")) {
						stored[q.tok] = b
						storedID[q.tok] = id
					}
				}
			}
		}
	}
	w.K.Spawn("gae", func() {
		for _, b := range backends {
			body, _ := json.Marshal(b)
			if r := gaeCall(w, plat, "api", adminID, "POST", "/api/backends", nil, body); r.Status != 200 {
				w.Violation("setup", "could not register backend %s: %d %s", b.BackendID, r.Status, r.Body)
			}
		}
		// polls happen at T0 - ago: order them by time
		type ev struct {
			i  int
			at time.Duration
		}
		var evs []ev
		maxAgo := time.Duration(0)
		for _, p := range plans {
			if p.polls && p.ago+30*time.Second > maxAgo {
				maxAgo = p.ago + 30*time.Second
			}
		}
		if busy >= 0 && maxAgo < 7*time.Minute {
			maxAgo = 7 * time.Minute
		}
		for i, p := range plans {
			if p.polls {
				// the list call long-polls for 30 s and re-registers the backend as seen on
				// every iteration, so "ago" is measured from the end of the poll
				evs = append(evs, ev{i, maxAgo - p.ago - 30*time.Second})
			}
		}
		sort.Slice(evs, func(a, b int) bool { return evs[a].at < evs[b].at })
		base := w.K.Now()
		var wg sync.WaitGroup
		var lpMu sync.Mutex
		lpMuSnap = &lpMu
		if busy >= 0 {
			bb := backends[busy]
			plat.Latency = func(r *simplatform.RPC) time.Duration {
				if r.Service == "datastore_v3" && r.Method == "Put" && len(r.Keys) > 0 && strings.HasPrefix(r.Keys[0], "/backendTracker:") {
					return 30 * time.Millisecond
				}
				return 0
			}
			wg.Add(1)
			go func() {
				defer wg.Done()
				poll := func() {
					gaeCall(w, plat, "agent", simplatform.Identity{OAuthEmail: bb.BackendUser}, "GET", "/agent/pending", agentHdr(bb.BackendID, ""), nil)
					lpMu.Lock()
					lastPoll[bb.BackendID] = w.K.Now()
					lpMu.Unlock()
				}
				time.Sleep(maxAgo - 6*time.Minute - 30*time.Second)
				poll() // a long poll: the backend is live now
				u := bb.EndUser
				if u == "allUsers" {
					u = users[0]
				}
				pfx := ""
				if len(bb.PathPrefixes) > 0 {
					pfx = bb.PathPrefixes[0]
				}
				go gaeCall(w, plat, "default", simplatform.Identity{UserEmail: u}, "GET", pfx+"/busy?tok=busy", nil, nil)
				time.Sleep(time.Second)
				if len(requestEntities(plat)[bb.BackendID]) > 0 {
					w.Probe("busy_backend_polls_return_at_once")
				}
				for w.K.Now() < base+maxAgo-20*time.Second {
					time.Sleep(20 * time.Second)
					poll()
				}
			}()
		}
		for _, e := range evs {
			if d := base + e.at - w.K.Now(); d > 0 {
				time.Sleep(d)
			}
			b := backends[e.i]
			lastPoll[b.BackendID] = w.K.Now() + 30*time.Second
			wg.Add(1)
			go func() {
				defer wg.Done()
				// the list call long-polls for 30 s; liveness is registered when it starts
				gaeCall(w, plat, "agent", simplatform.Identity{OAuthEmail: b.BackendUser}, "GET", "/agent/pending", agentHdr(b.BackendID, ""), nil)
			}()
		}
		if d := base + maxAgo - w.K.Now(); d > 0 {
			time.Sleep(d)
		}
		reqStart = w.K.Now()
		if lookupFault {
			queryFault := lookupFaultKind == 1
			var qmu sync.Mutex
			failedQueries := 0
			plat.Fault = func(r *simplatform.RPC) error {
				if !queryFault && r.Service == "datastore_v3" && r.Method == "Get" && len(r.Keys) == 1 && strings.HasPrefix(r.Keys[0], "/backendTracker:") {
					w.K.Count("fault.tracker_lookup")
					return errors.New("injected datastore failure")
				}
				// the first backend queries fail (the one for the user's own backends comes first)
				if queryFault && r.Service == "datastore_v3" && r.Method == "RunQuery" && r.Kind == "backend" {
					qmu.Lock()
					failedQueries++
					fail := failedQueries <= len(reqs)
					qmu.Unlock()
					if fail {
						w.K.Count("fault.backend_query")
						return errors.New("injected datastore failure")
					}
				}
				return nil
			}
		}
		// all user requests of a round at the same instant (each then waits up to 30 s for a response)
		var rw sync.WaitGroup
		issue := func(round int) {
			for _, q := range reqs {
				q := q
				if q.round != round {
					continue
				}
				rw.Add(1)
				go func() {
					defer rw.Done()
					q.res = gaeCall(w, plat, "default", simplatform.Identity{UserEmail: q.user}, "GET", fmt.Sprintf("%s?tok=%s", q.path, q.tok), nil, nil)
				}()
			}
		}
		if cronFirst {
			// the platform's periodic clean-up call must not change the routing
			if r := gaeCall(w, plat, "api", simplatform.Identity{}, "GET", "/cron/delete", http.Header{"X-Appengine-Cron": {"true"}}, nil); r.Status != 200 && !lookupFault {
				w.Violation("setup", "the clean-up call failed: %d %s", r.Status, r.Body)
			}
			w.Probe("cleanup_cron_before_lookups")
			reqStart = w.K.Now()
		}
		snapshot(reqStart, lastPoll)
		issue(0)
		if change != 0 && !lookupFault {
			time.Sleep(5 * time.Second)
			collectStored() // a deleted backend takes its stored requests with it
			if added != nil {
				body, _ := json.Marshal(added)
				if r := gaeCall(w, plat, "api", adminID, "POST", "/api/backends", nil, body); r.Status != 200 {
					w.Violation("setup", "could not register backend %s: %d %s", added.BackendID, r.Status, r.Body)
				}
				backends = append(backends, added)
				lastPoll[added.BackendID] = w.K.Now() + 30*time.Second
				wg.Add(1)
				go func() {
					defer wg.Done()
					gaeCall(w, plat, "agent", simplatform.Identity{OAuthEmail: added.BackendUser}, "GET", "/agent/pending", agentHdr(added.BackendID, ""), nil)
				}()
			} else {
				del := backends[delIdx]
				if answerFirst {
					for i := 0; i < nReq; i++ {
						q := reqs[i]
						if stored[q.tok] != del.BackendID {
							continue
						}
						resp := []byte("HTTP/1.1 200 OK\r\nContent-Type: text/plain\r\nContent-Length: 14\r\n\r\nfirst answer\r\n")
						if r := gaeCall(w, plat, "agent", simplatform.Identity{OAuthEmail: del.BackendUser}, "POST", "/agent/response", agentHdr(del.BackendID, storedID[q.tok]), resp); r.Status != 200 {
							w.Violation("setup", "could not post a response: %d %s", r.Status, r.Body)
						}
						q.fixed = del.BackendID
						delete(stored, q.tok)
						twin := reqs[nReq+i]
						twin.tok = q.tok
						twin.repeat = true
						w.Probe("answered_then_backend_deleted_then_same_url")
					}
					time.Sleep(time.Second)
				}
				if r := gaeCall(w, plat, "api", adminID, "DELETE", "/api/backends/"+del.BackendID, nil, nil); r.Status != 200 {
					w.Violation("setup", "could not delete backend %s: %d %s", del.BackendID, r.Status, r.Body)
				}
				backends = append(append([]*gaeBackend(nil), backends[:delIdx]...), backends[delIdx+1:]...)
			}
			time.Sleep(5 * time.Second)
			snapshot(w.K.Now(), lastPoll)
			issue(1)
			w.Probe("registrations_changed_between_lookups")
		}
		rw.Wait()
		wg.Wait()
		w.K.Stop()
	})
	w.OnCheck(func() {
		collectStored()
		for _, q := range reqs {
			if q.res == nil || !q.res.Done {
				w.Violation("hang", "a user request never returned | %s %s", q.user, q.path)
				continue
			}
			got := stored[q.tok]
			if q.fixed != "" {
				got = q.fixed
			}
			backends, lastPoll, reqStart := rounds[q.round].backends, rounds[q.round].lastPoll, rounds[q.round].start
			roundNote := ""
			if q.round > 0 {
				roundNote = " (second lookup of the same user and path, after the registrations changed)"
			}
			// independent specification
			match := func(b *gaeBackend) int {
				best := -1
				for _, p := range b.PathPrefixes {
					if strings.HasPrefix(q.path, p) && len(p) > best {
						best = len(p)
					}
				}
				return best
			}
			pick := func(owner string) (cands []*gaeBackend) {
				best := -1
				for _, b := range backends {
					if b.EndUser != owner {
						continue
					}
					if m := match(b); m > best {
						best = m
					}
				}
				if best < 0 {
					return nil
				}
				for _, b := range backends {
					if b.EndUser == owner && match(b) == best {
						cands = append(cands, b)
					}
				}
				return cands
			}
			cands := pick(q.user)
			if cands == nil {
				cands = pick("allUsers")
			}
			live := func(b *gaeBackend) bool {
				lp, ok := lastPoll[b.BackendID]
				return ok && reqStart-lp < 5*time.Minute
			}
			allowed := map[string]bool{}
			may404 := len(cands) == 0 || lookupFault
			for _, c := range cands {
				if live(c) {
					allowed[c.BackendID] = true
				} else {
					may404 = true
				}
			}
			desc := fmt.Sprintf("user %s path %q%s; backends %s", q.user, q.path, roundNote, describeBackends(backends, lastPoll, reqStart))
			if got == "" && q.repeat && len(allowed) > 0 && q.res.Status == 200 {
				// (a live backend matches and the proxy answered from its response cache:
				// routing is not observable here)
				continue
			}
			if got == "" {
				if q.res.Status != 404 {
					w.Violation("routing", "a request that was not stored for any backend was not answered 404 | status %d; %s", q.res.Status, desc)
				} else if !may404 {
					w.Violation("routing", "a request was answered 404 although the most specific matching backend is live | %s", desc)
				}
				w.Probe("answered_404")
			} else {
				if !allowed[got] {
					w.Violation("routing", "a request was routed to a backend other than the most specific live backend of its user (or shared fallback) | routed to %s; %s", got, desc)
				}
				w.Probe("routed")
				if len(cands) > 0 && cands[0].EndUser == "allUsers" {
					w.Probe("shared_fallback")
				}
			}
		}
		if lookupFault {
			w.Probe("lookup_fault")
		}
	})
}

func describeBackends(bs []*gaeBackend, lastPoll map[string]time.Duration, at time.Duration) string {
	var s []string
	for _, b := range bs {
		if strings.HasPrefix(b.BackendID, "aa") {
			continue // (filler registrations)
		}
		age := "never polled"
		if lp, ok := lastPoll[b.BackendID]; ok {
			age = fmt.Sprintf("polled %v before", at-lp)
		}
		s = append(s, fmt.Sprintf("%s{user=%s prefixes=%q %s}", b.BackendID, b.EndUser, b.PathPrefixes, age))
	}
	return strings.Join(s, " ")
}

// ---- C19 --------------------------------------------------------------------

func worldC19(w *World) {
	t := w.T
	faulty := w.Cfg == "faulty"
	w.K.ChaosMult = []int{2, 1, 4}[t.Choice(3, "chaos")]
	plat := simplatform.New()
	be := &gaeBackend{BackendID: "be0", BackendUser: "agent@svc.example", EndUser: "allUsers", PathPrefixes: []string{"/"}}
	agentID := simplatform.Identity{OAuthEmail: be.BackendUser}
	nC := t.Range(1, 4, "clients")
	sizes := []int{0, 10, 5000, 999000, 999999, 1000000, 1000001, 1999999, 2000000, 2000001}
	type creq struct {
		tok, user, method, path string
		reqSize, respSize       int
		respond                 bool
		respDelay               time.Duration
		res                     *gaeResult
		fetched                 []byte
		rid                     string
		posted                  []byte
		postStatus              int
		// exactReq/exactResp k > 0: the stored serialised request / the posted response is
		// exactly k * 1,000,000 bytes long (calib: an otherwise identical request whose
		// stored length calibrates the request body size)
		exactReq, exactResp int
		calib               *creq
		// after: issue this request only once that one has returned; urlTok: the token
		// in the URL (the URL of a repeated GET equals the first one's)
		after      *creq
		dynReqSize int // request body size decided at run time (calibrated)
		// cronAfterPost: the platform's periodic clean-up call (cron.yaml: /cron/delete)
		// arrives right after the agent's response was stored, before the client's
		// next look
		cronAfterPost bool
		// cutFirstPost: the agent's connection is closed partway through its first
		// respond call (the body ends early); it then posts the response again
		cutFirstPost bool
		urlTok       string
		cacheControl string
		// afterAll: issue this request only once all of these have returned
		afterAll []*creq
	}
	var reqs []*creq
	for i := 0; i < nC; i++ {
		c := &creq{tok: fmt.Sprintf("c%02d", i), user: []string{"alice@example.com", "bob@example.com"}[t.Choice(2, "user")]}
		c.method = []string{"GET", "POST", "POST"}[t.Choice(3, "method")]
		c.path = fmt.Sprintf("/r/%s", c.tok)
		if t.Rare(1, 4, "samepath") {
			c.path = "/shared/url"
		}
		if c.method == "POST" {
			c.reqSize = sizes[t.Pick("reqsize", 3, 3, 3, 1, 2, 2, 2, 1, 1, 1)]
		}
		c.respSize = sizes[t.Pick("respsize", 2, 3, 3, 1, 2, 2, 2, 1, 1, 1)]
		c.respond = !t.Rare(1, 6, "neveranswered")
		c.respDelay = []time.Duration{0, time.Second, 10 * time.Second, 29 * time.Second}[t.Choice(4, "respdelay")]
		c.urlTok = c.tok
		c.cronAfterPost = t.Rare(1, 4, "cronafterpost")
		c.cutFirstPost = t.Rare(1, 5, "cutfirstpost")
		if t.Rare(1, 4, "exactresp") {
			c.exactResp = t.Range(1, 3, "exactrespk")
		}
		reqs = append(reqs, c)
		if c.method == "POST" && t.Rare(1, 4, "exactreq") {
			// a calibration twin first, then the request sized from what was stored for it
			c.reqSize, c.respond, c.respDelay = 1000, true, 0
			x := &creq{tok: fmt.Sprintf("x%02d", i), user: c.user, method: "POST", path: fmt.Sprintf("/r/x%02d", i), respSize: 10, respond: true, calib: c, exactReq: t.Range(1, 3, "exactreqk")}
			x.urlTok = x.tok
			reqs = append(reqs, x)
		}
		if c.method == "GET" && c.respond && t.Rare(1, 3, "repeatget") {
			// the same user asks for the same URL again once the first answer is there
			c.respDelay = 0
			c.cacheControl = []string{"", "no-store", "max-age=0", "must-revalidate", "private", "no-cache", "public, max-age=60", "no-transform"}[t.Choice(8, "cachecontrol")]
			y := &creq{tok: fmt.Sprintf("y%02d", i), user: c.user, method: "GET", path: c.path, urlTok: c.tok, respSize: 77, respond: true, after: c, cacheControl: c.cacheControl}
			reqs = append(reqs, y)
		}
	}
	// a backlog: a hundred and more requests of this backend were answered a moment
	// ago and are still stored (the clean-up only removes them after minutes)
	if !faulty && t.Rare(1, 15, "backlog") {
		nb := []int{100, 104, 130}[t.Choice(3, "backlogsize")]
		var pre []*creq
		for i := 0; i < nb; i++ {
			b := &creq{tok: fmt.Sprintf("b%03d", i), user: "alice@example.com", method: "POST", path: fmt.Sprintf("/backlog/%d", i), reqSize: 5, respSize: 10, respond: true}
			b.urlTok = b.tok
			pre = append(pre, b)
		}
		for _, c := range reqs {
			c.afterAll = pre
		}
		reqs = append(pre, reqs...)
		w.Probe("hundred_completed_requests_still_stored")
	}
	// the response an agent posts for c
	respHead := func(c *creq, n int) string {
		cc := ""
		if c.cacheControl != "" {
			cc = "Cache-Control: " + c.cacheControl + "\r\n"
		}
		return fmt.Sprintf("HTTP/1.1 200 OK\r\nX-Echo-Token: %s\r\n%sContent-Length: %d\r\n\r\n", c.tok, cc, n)
	}
	mkResp := func(c *creq) []byte {
		return append([]byte(respHead(c, c.respSize)), tokenBody(c.tok+"/resp", c.respSize)...)
	}
	for _, c := range reqs {
		if c.exactResp > 0 {
			target := c.exactResp * 1000000
			for n := target - 200; n < target; n++ {
				c.respSize = n
				if len(respHead(c, n))+n == target {
					break
				}
			}
		}
	}
	// faults: the n-th call of a given kind fails
	type frule struct {
		svc, method, keyPrefix string
		nth                    int
		seen                   int
	}
	var rules []*frule
	if faulty {
		nf := t.Range(1, 3, "nfaults")
		for i := 0; i < nf; i++ {
			k := t.Choice(9, "faultkind")
			r := &frule{nth: t.Range(0, 3, "nth")}
			switch k {
			case 0:
				r.svc, r.method, r.keyPrefix = "datastore_v3", "Put", "/response:"
			case 1:
				r.svc, r.method, r.keyPrefix = "datastore_v3", "Put", "/req:"
			case 2:
				r.svc, r.method, r.keyPrefix = "datastore_v3", "Put", "/blobParts:"
			case 3:
				r.svc, r.method, r.keyPrefix = "datastore_v3", "Get", "/response:"
			case 4:
				r.svc, r.method, r.keyPrefix = "datastore_v3", "Get", "/req:"
			case 5:
				r.svc, r.method = "datastore_v3", "RunQuery"
			case 6:
				r.svc, r.method = "memcache", "Set"
			case 7:
				r.svc, r.method, r.keyPrefix = "datastore_v3", "Put", "/activityTracker:"
			case 8:
				// every blob-part write fails (several concurrent part writes of one payload)
				r.svc, r.method, r.keyPrefix, r.nth = "datastore_v3", "Put", "/blobParts:", -1
			}
			rules = append(rules, r)
		}
	}
	// both store writes of one respond call fail (the response entity and the
	// request marked completed): armed by the scripted agent around that call
	bothVictim := -1
	if faulty && t.Rare(1, 2, "bothwrites") {
		bothVictim = t.Choice(nC, "bothvictim")
	}
	armBoth := 0
	evictPct := []int{0, 0, 30, 100}[t.Choice(4, "evict")]
	// memcache may be unavailable altogether: every read of it fails (not a miss); the
	// datastore still has everything, so nothing may change for clients and agents
	cacheDown := t.Rare(1, 5, "cachedown")
	var fmu sync.Mutex
	plat.Fault = func(r *simplatform.RPC) error {
		fmu.Lock()
		defer fmu.Unlock()
		if cacheDown && r.Service == "memcache" && r.Method == "Get" {
			w.K.Count("fault.memcache_read_error")
			return errors.New("memcache unavailable")
		}
		if armBoth > 0 && r.Service == "datastore_v3" && r.Method == "Put" {
			for _, k := range r.Keys {
				if strings.HasPrefix(k, "/response:") || strings.HasPrefix(k, "/req:") {
					armBoth--
					w.K.Count("fault.rpc_respond_write")
					if armBoth == 0 {
						w.Probe("both_respond_writes_fail")
					}
					return errors.New("injected RPC failure")
				}
			}
		}
		for _, f := range rules {
			if f.svc != r.Service || f.method != r.Method {
				continue
			}
			if f.keyPrefix != "" {
				ok := false
				for _, k := range r.Keys {
					if strings.HasPrefix(k, f.keyPrefix) {
						ok = true
					}
				}
				if !ok {
					continue
				}
			}
			f.seen++
			if f.nth == -1 {
				w.K.Count("fault.rpc_all_blob_parts")
				return errors.New("injected RPC failure")
			}
			if f.seen-1 == f.nth {
				w.K.Count("fault.rpc_" + r.Service + "_" + r.Method)
				return errors.New("injected RPC failure")
			}
		}
		return nil
	}
	evictCtr := 0
	plat.Evict = func(key string) bool {
		evictCtr++
		if evictPct > 0 && (evictCtr*37)%100 < evictPct {
			w.K.Count("fault.memcache_evict")
			return true
		}
		return false
	}
	rpcLat := []time.Duration{0, 0, 5 * time.Millisecond}[t.Choice(3, "rpclat")]
	plat.Latency = func(*simplatform.RPC) time.Duration { return rpcLat }
	var mu sync.Mutex
	maxTook := map[string]time.Duration{}
	pending := map[string]time.Duration{} // calls started and not yet returned: kind#n -> start
	callN := 0
	begin := func(kind string) string {
		mu.Lock()
		callN++
		k := fmt.Sprintf("%s#%d", kind, callN)
		pending[k] = w.K.Now()
		mu.Unlock()
		return k
	}
	note := func(key string, r *gaeResult) {
		mu.Lock()
		kind := key[:strings.Index(key, "#")]
		delete(pending, key)
		if r.Took > maxTook[kind] {
			maxTook[kind] = r.Took
		}
		mu.Unlock()
	}
	var clientsWG sync.WaitGroup
	stop := false
	w.K.Spawn("gae", func() {
		body, _ := json.Marshal(be)
		if r := gaeCall(w, plat, "api", adminID, "POST", "/api/backends", nil, body); r.Status != 200 {
			w.Inconclusive("setup: could not register backend (%d)", r.Status)
			w.K.Stop()
			return
		}
		// first poll makes the backend live (it long-polls until a request shows up)
		go func() {
			k := begin("list")
			r := gaeCall(w, plat, "agent", agentID, "GET", "/agent/pending", agentHdr("be0", ""), nil)
			note(k, r)
		}()
		time.Sleep(time.Second)
		for _, c := range reqs {
			c := c
			clientsWG.Add(1)
			go func() {
				defer clientsWG.Done()
				if c.after != nil {
					for i := 0; i < 1200; i++ {
						mu.Lock()
						done := c.after.res != nil && c.after.res.Done
						mu.Unlock()
						if done {
							break
						}
						time.Sleep(100 * time.Millisecond)
					}
				}
				for _, a := range c.afterAll {
					for i := 0; i < 3000; i++ {
						mu.Lock()
						done := a.res != nil && a.res.Done
						mu.Unlock()
						if done {
							break
						}
						time.Sleep(100 * time.Millisecond)
					}
				}
				if c.calib != nil {
					// size the body so that the stored serialised request is exactly k MB
					var l0 int
					for i := 0; i < 1200 && l0 == 0; i++ {
						mu.Lock()
						l0 = len(c.calib.fetched)
						mu.Unlock()
						if l0 == 0 {
							time.Sleep(100 * time.Millisecond)
						}
					}
					target := c.exactReq * 1000000
					size := 5
					for n := target - 2000; n < target && l0 > 0; n++ {
						if l0-c.calib.reqSize-len(fmt.Sprint(c.calib.reqSize))+n+len(fmt.Sprint(n)) == target {
							size = n
						}
					}
					mu.Lock()
					c.dynReqSize = size
					mu.Unlock()
				}
				var b []byte
				if c.method == "POST" {
					b = tokenBody(c.tok+"/req", max(c.reqSize, c.dynReqSize))
				}
				k := begin("client")
				res := gaeCall(w, plat, "default", simplatform.Identity{UserEmail: c.user}, c.method, c.path+"?tok="+c.urlTok, http.Header{"X-Token": {c.tok}}, b)
				mu.Lock()
				c.res = res
				mu.Unlock()
				note(k, c.res)
			}()
		}
		// the scripted agent: list, fetch, respond
		handled := map[string]bool{}
		go func() {
			for {
				mu.Lock()
				s := stop
				mu.Unlock()
				if s {
					return
				}
				lk := begin("list")
				lr := gaeCall(w, plat, "agent", agentID, "GET", "/agent/pending", agentHdr("be0", ""), nil)
				note(lk, lr)
				var ids []string
				if lr.Status == 200 {
					json.Unmarshal(lr.Body, &ids)
				}
				for _, id := range ids {
					if handled[id] {
						continue
					}
					handled[id] = true
					id := id
					go func() {
						fk := begin("fetch")
						fr := gaeCall(w, plat, "agent", agentID, "GET", "/agent/request", agentHdr("be0", id), nil)
						note(fk, fr)
						if fr.Status != 200 {
							return
						}
						var c *creq
						for _, x := range reqs {
							if bytes.Contains(fr.Body[:min(len(fr.Body), 600)], []byte("X-Token: "+x.tok+"\r\n")) {
								c = x
							}
						}
						if c == nil {
							w.Violation("relay", "the bytes fetched for a request ID are not any client's request | %.80q", fr.Body)
							return
						}
						mu.Lock()
						c.fetched = fr.Body
						c.rid = id
						mu.Unlock()
						if !c.respond {
							return
						}
						time.Sleep(c.respDelay)
						resp := mkResp(c)
						if bothVictim >= 0 && reqs[bothVictim] == c {
							fmu.Lock()
							armBoth = 2
							fmu.Unlock()
						}
						if c.cutFirstPost && len(resp) > 40 {
							ck := begin("respond")
							cr := gaeCallBody(w, plat, "agent", agentID, "POST", "/agent/response", agentHdr("be0", id), &cutBody{bytes.NewReader(resp[:len(resp)/2])})
							note(ck, cr)
							w.Probe("respond_call_cut_partway")
							if cr.Status == 200 && !faulty {
								w.Violation("relay", "a respond call whose body ended early was acknowledged as successful | %d of %d bytes had arrived", len(resp)/2, len(resp))
							}
						}
						pk := begin("respond")
						pr := gaeCall(w, plat, "agent", agentID, "POST", "/agent/response", agentHdr("be0", id), resp)
						fmu.Lock()
						armBoth = 0
						fmu.Unlock()
						note(pk, pr)
						if c.cronAfterPost {
							ck := begin("cron")
							cr := gaeCall(w, plat, "api", simplatform.Identity{}, "GET", "/cron/delete", http.Header{"X-Appengine-Cron": {"true"}}, nil)
							note(ck, cr)
							if cr.Status == 200 {
								w.Probe("cleanup_cron_between_post_and_pickup")
							}
						}
						mu.Lock()
						c.posted = resp
						c.postStatus = pr.Status
						mu.Unlock()
					}()
				}
				// requests that are never answered stay listed; do not spin on them
				time.Sleep(200 * time.Millisecond)
			}
		}()
		// every client call returns within the proxy's own waiting period; one that has
		// not returned after five simulated minutes never will (reported by the oracle)
		clientsDone := make(chan struct{})
		go func() {
			clientsWG.Wait()
			close(clientsDone)
		}()
		select {
		case <-clientsDone:
		case <-time.After(5 * time.Minute):
		}
		time.Sleep(40 * time.Second)
		mu.Lock()
		stop = true
		mu.Unlock()
		time.Sleep(35 * time.Second)
		w.K.Stop()
	})
	w.K.Horizon = 30 * time.Minute
	w.K.MaxSteps = 2000000
	var desc []string
	for _, c := range reqs {
		if strings.HasPrefix(c.tok, "b") {
			continue // (backlog)
		}
		desc = append(desc, fmt.Sprintf("%s %s %s req=%d resp=%d answered=%v after %v", c.user, c.method, c.path, c.reqSize, c.respSize, c.respond, c.respDelay))
	}
	var fdesc []string
	for _, f := range rules {
		fdesc = append(fdesc, fmt.Sprintf("%s.%s %s #%d", f.svc, f.method, f.keyPrefix, f.nth))
	}
	w.Sample = map[string]interface{}{"clients": desc, "faults": fdesc, "evict_pct": evictPct}
	w.OnCheck(func() {
		// every handler call returns in bounded time: generously above the proxy's own
		// waiting periods (whose exact length is not part of the statement)
		limit := 2*time.Minute + 200*rpcLat
		for kind, d := range maxTook {
			if d > limit {
				w.Violation("deadline", "a handler call took longer than its deadline | %s call took %v", kind, d)
			}
		}
		for key, t0 := range pending {
			if w.K.Now()-t0 > limit {
				w.Violation("deadline", "a handler call never returned | %s call started at %v is still running at %v", key[:strings.Index(key, "#")], t0, w.K.Now())
			}
		}
		for _, c := range reqs {
			if c.dynReqSize > 0 {
				c.reqSize = c.dynReqSize
			}
			name := fmt.Sprintf("%s %s (req %d bytes, resp %d bytes)", c.method, c.path, c.reqSize, c.respSize)
			if c.res == nil || !c.res.Done {
				w.Violation("hang", "a client request never returned | %s", name)
				continue
			}
			if c.fetched != nil {
				// the fetched bytes are exactly the client's serialised request
				want := tokenBody(c.tok+"/req", c.reqSize)
				pr, err := http.ReadRequest(bufio.NewReader(bytes.NewReader(c.fetched)))
				var got []byte
				if err == nil {
					got, err = io.ReadAll(pr.Body)
				}
				if err != nil || pr.Header.Get("X-Token") != c.tok || pr.Method != c.method || !bytes.Equal(got, want) {
					w.Violation("relay", "the bytes an agent fetched are not the client's serialised request | %s: parse error %v, body %d bytes, want %d", name, err, len(got), len(want))
				}
				if c.reqSize >= 999999 {
					w.Probe("request_across_part_limit")
				}
				if c.exactReq > 0 && len(c.fetched)%1000000 == 0 {
					w.Probe("request_exact_multiple_of_part_size")
				}
			}
			st := c.res.Status
			switch {
			case st == 200:
				// whose response is it?
				tok := c.res.Header.Get("X-Echo-Token")
				if tok == c.tok {
					if !bytes.Equal(c.res.Body, tokenBody(c.tok+"/resp", c.respSize)) {
						w.Violation("relay", "a client received a response body that differs from what was posted under its request ID | %s: got %d bytes", name, len(c.res.Body))
					}
					if c.respSize >= 999999 {
						w.Probe("response_across_part_limit")
					}
					if c.exactResp > 0 && len(c.posted)%1000000 == 0 {
						w.Probe("response_exact_multiple_of_part_size")
					}
					if c.after != nil && c.cacheControl != "" {
						w.Probe("repeated_get_not_replayed")
					}
					w.Probe("response_relayed")
					break
				}
				// the documented per-user per-URL GET cache: same user, same URL, earlier 200 without Cache-Control
				cachedOK := false
				if c.method == "GET" {
					for _, o := range reqs {
						if o != c && o.tok == tok && o.method == "GET" && o.user == c.user && o.path == c.path && o.urlTok == c.urlTok && o.cacheControl == "" {
							cachedOK = true
						}
					}
				}
				if !cachedOK {
					w.Violation("relay", "a client received the response of another request | %s received the response for %q", name, tok)
				} else {
					w.Probe("served_from_get_cache")
				}
			case st == 504:
				if c.respond && c.postStatus == 200 && !faulty && c.respDelay < 25*time.Second {
					w.Violation("relay", "a client got 504 although its response was posted in time | %s", name)
				}
				if !faulty && c.fetched == nil {
					// (fault-free: the agent lists the backend's pending requests several
					// times a second for the whole time the client waits)
					w.Violation("relay", "the agent that kept asking for pending requests never obtained a stored client request (through the pending list and a fetch), and its client got 504 | %s", name)
				}
				w.Probe("timeout_504")
			case st >= 500 || st == 404:
				if !faulty {
					w.Violation("relay", "a client request failed without any injected fault | %s: %d %.80q", name, st, c.res.Body)
				}
			default:
				w.Violation("relay", "unexpected client status | %s: %d", name, st)
			}
		}
		// a completed request is no longer listed as pending (fault-free, strongly consistent stub)
		if !faulty {
			plat.Fault = nil
			lr := gaeCall(w, plat, "agent", agentID, "GET", "/agent/pending", agentHdr("be0", ""), nil)
			var ids []string
			json.Unmarshal(lr.Body, &ids)
			for _, c := range reqs {
				for _, id := range ids {
					if id == c.rid && c.postStatus == 200 {
						w.Violation("pending", "a request whose response was posted successfully is still listed as pending | %s", c.tok)
					}
				}
			}
		}
		if nC > 1 {
			w.Probe("concurrent_clients")
		}
		if cacheDown {
			w.Probe("memcache_unavailable")
		}
	})
}
