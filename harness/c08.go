package harness

import (
	"fmt"
	"math"
	"net/http"
	"strings"
	"time"

	"github.com/google/inverting-proxy/agent/utils"

	"verif/sim"
)

func init() { register("C08", worldC08) }

// worldC08: the agent's polling loop against a fake proxy whose list endpoint
// follows a scripted pattern of failures and successes; zero network latency,
// so the gap between the end of a failed call and the start of the next one
// is exactly the agent's back-off sleep.
func worldC08(w *World) {
	t := w.T
	w.K.ChaosMult = []int{2, 1, 4}[t.Choice(3, "chaos")]
	w.K.LatencyMenu = []time.Duration{0}
	// script: runs of failures separated by successes
	type step struct {
		kind string // ok, 5xx, garbled, truncated, hang, refused, 404
		wait time.Duration
	}
	var script []step
	// the first successful poll may hand out requests whose backend is slow: they
	// complete in the background while later polls fail
	withWork := t.Rare(1, 2, "withwork")
	nRuns := t.Range(1, 4, "runs")
	long := w.Tier == "thorough"
	for r := 0; r < nRuns; r++ {
		maxFail := 16
		if long || t.Rare(1, 8, "longrun") {
			maxFail = 80
		}
		nf := t.Range(1, maxFail, "failures")
		for i := 0; i < nf; i++ {
			k := []string{"5xx", "garbled", "truncated", "404", "refused", "hang", "dropped-fin", "dropped-rst", "retry-after", "cut200", "401"}[t.Pick("failkind", 6, 3, 2, 2, 2, 1, 2, 2, 3, 2, 2)]
			if k == "hang" && i > 3 {
				k = "5xx" // keep simulated time per run bounded (each hang costs the 60 s client timeout)
			}
			if k == "refused" && withWork {
				k = "5xx" // the one-shot refusal could hit a worker's dial instead of the poller's
			}
			script = append(script, step{kind: k})
		}
		ns := t.Range(1, 3, "successes")
		for i := 0; i < ns; i++ {
			script = append(script, step{kind: "ok", wait: []time.Duration{500 * time.Millisecond, 3 * time.Second, 29 * time.Second}[t.Choice(3, "okwait")]})
		}
	}
	// the agent may run on a VM (its client then carries the VM identity)
	if t.Rare(1, 4, "gce") {
		sim.GCE.On = true
		sim.GCE.Get = func(path string) (string, error) {
			if strings.Contains(path, "/identity") {
				return "vm-identity-token", nil
			}
			return "sa@project.iam.gserviceaccount.example", nil
		}
		w.Probe("agent_on_a_vm")
	}
	fp := NewFakeProxy(w)
	workIDs := []string{"w0", "w1", "w2"}
	workDelay := map[string]time.Duration{}
	for _, id := range workIDs {
		workDelay[id] = []time.Duration{time.Second, 5 * time.Second, 20 * time.Second, 40 * time.Second}[t.Choice(4, "workdelay")]
		fp.AddRequest(id, serialiseRequest("GET", "/r/"+id, "example.test", http.Header{"X-Token": {id}}, nil), "")
	}
	handedOut := false
	refuseNext := &sim.NetFault{ToAddr: "proxy:80", ConnOrd: -1, Kind: sim.FaultRefuse, Once: true, Fired: 1}
	w.K.Faults = append(w.K.Faults, refuseNext)
	kinds := make([]string, 0, len(script)+2)
	fp.OnList = func(n int, r *http.Request) (int, []byte) {
		if n >= len(script) {
			return 0, nil
		}
		st := script[n]
		switch st.kind {
		case "ok":
			if withWork && !handedOut {
				handedOut = true
				w.Probe("requests_in_flight_while_polls_fail")
				return 200, jsonList(workIDs)
			}
			time.Sleep(st.wait)
			return 200, []byte("[]")
		case "5xx":
			w.K.Count("fault.list_5xx")
			return 500 + n%4, []byte("injected failure")
		case "404":
			w.K.Count("fault.list_404")
			return 404, []byte("nope")
		case "401":
			w.K.Count("fault.list_401")
			return 401, []byte("unauthorised")
		case "retry-after":
			// (the header is added by the connection-level wrapper below)
			w.K.Count("fault.list_503_retry_after")
			return []int{503, 429}[n%2], []byte("slow down")
		case "garbled":
			w.K.Count("fault.list_garbled_json")
			return 200, []byte(`["abc", {nope`)
		case "hang":
			w.K.Count("fault.list_hang_until_timeout")
			return 0, nil
		}
		return 200, []byte("[]")
	}
	// truncated / refused need connection-level control: wrap the handler
	w.K.Spawn("proxy", func() {
		l, err := sim.Listen("tcp", ":80")
		if err != nil {
			panic(err)
		}
		var lastDropAt time.Duration = -1
		swallowed := 0
		srv := &http.Server{Handler: http.HandlerFunc(func(rw http.ResponseWriter, r *http.Request) {
			fp.mu.Lock()
			n := len(fp.ListCalls)
			// net/http's transport re-sends an idempotent request at once when a reused
			// connection is dropped before any answer - again and again while it finds
			// idle kept-alive connections (there are at most a handful here). Those
			// re-sends belong to the same failed call of the agent and are dropped too.
			if r.Header.Get("X-Inverting-Proxy-Request-ID") == "" && lastDropAt >= 0 && w.K.Now()-lastDropAt < 200*time.Microsecond && swallowed < 8 {
				swallowed++
				fp.ListCalls[n-1].Done = w.K.Now()
				fp.mu.Unlock()
				w.K.Count("fault.list_connection_dropped_again_on_transport_resend")
				if hj, ok := rw.(http.Hijacker); ok {
					if c, _, err := hj.Hijack(); err == nil {
						c.(*sim.Conn).Abort()
					}
				}
				return
			}
			fp.mu.Unlock()
			if r.Header.Get("X-Inverting-Proxy-Request-ID") == "" && n < len(script) {
				switch script[n].kind {
				case "retry-after":
					rw.Header().Set("Retry-After", []string{"0", "5", "Thu, 01 Jan 2015 00:00:00 GMT", "120"}[n%4])
				case "dropped-fin", "dropped-rst":
					// the request is read, then the connection is closed or reset without any answer
					fp.mu.Lock()
					fp.ListCalls = append(fp.ListCalls, ListCall{At: w.K.Now(), Seq: w.K.Seq()})
					fp.mu.Unlock()
					w.K.Count("fault.list_connection_dropped")
					if hj, ok := rw.(http.Hijacker); ok {
						if c, _, err := hj.Hijack(); err == nil {
							fp.mu.Lock()
							fp.ListCalls[n].Done = w.K.Now()
							fp.ListCalls[n].Status = -3
							lastDropAt = w.K.Now()
							swallowed = 0
							fp.mu.Unlock()
							if script[n].kind == "dropped-rst" {
								c.(*sim.Conn).Abort()
							} else {
								c.Close()
							}
						}
					}
					return
				case "cut200":
					// a 200 whose announced body never starts: the connection ends after the header block
					fp.mu.Lock()
					fp.ListCalls = append(fp.ListCalls, ListCall{At: w.K.Now(), Seq: w.K.Seq()})
					fp.mu.Unlock()
					w.K.Count("fault.list_200_body_cut_before_first_byte")
					if hj, ok := rw.(http.Hijacker); ok {
						if c, _, err := hj.Hijack(); err == nil {
							c.Write([]byte("HTTP/1.1 200 OK\r\nContent-Type: application/json\r\nContent-Length: 100\r\n\r\n"))
							fp.mu.Lock()
							fp.ListCalls[n].Done = w.K.Now()
							fp.ListCalls[n].Status = -4
							fp.mu.Unlock()
							c.Close()
						}
					}
					return
				case "truncated":
					fp.mu.Lock()
					fp.ListCalls = append(fp.ListCalls, ListCall{At: w.K.Now(), Seq: w.K.Seq()})
					fp.mu.Unlock()
					w.K.Count("fault.list_truncated_body")
					rw.Header().Set("Content-Length", "100")
					rw.WriteHeader(200)
					rw.Write([]byte(`["ab`))
					if f, ok := rw.(http.Flusher); ok {
						f.Flush()
					}
					fp.mu.Lock()
					fp.ListCalls[n].Done = w.K.Now()
					fp.ListCalls[n].Status = -2
					fp.mu.Unlock()
					panic(http.ErrAbortHandler)
				case "refused":
					// answer this call with an error and close the connection; the
					// agent's next dial is refused once, which is its next failure
					fp.mu.Lock()
					fp.ListCalls = append(fp.ListCalls, ListCall{At: w.K.Now(), Seq: w.K.Seq()})
					fp.mu.Unlock()
					w.K.Count("fault.list_5xx_then_dial_refused")
					rw.Header().Set("Connection", "close")
					rw.WriteHeader(503)
					fp.mu.Lock()
					fp.ListCalls[n].Done = w.K.Now()
					fp.ListCalls[n].Status = 503
					refuseNext.Fired = 0
					fp.mu.Unlock()
					return
				}
			}
			fp.serve(rw, r)
		})}
		srv.Serve(l)
	})
	cb := startCountingBackend(w)
	cb.Delay = func(tok string) time.Duration { return workDelay[tok] }
	// the agent may be configured without a time limit for its calls to the proxy
	if t.Rare(1, 5, "no-proxy-timeout") {
		w.Probe("agent_without_proxy_timeout")
		startAgent(w, "-proxy-timeout=0")
	} else {
		startAgent(w)
	}
	w.K.Spawn("controller", func() {
		for {
			time.Sleep(5 * time.Second)
			fp.mu.Lock()
			n := len(fp.ListCalls)
			fp.mu.Unlock()
			if n > len(script) {
				break
			}
		}
		w.K.Stop()
	})
	for _, s := range script {
		kinds = append(kinds, s.kind)
	}
	w.Sample = map[string]interface{}{"script": strings.Join(kinds, " ")}
	w.K.Horizon = 2 * time.Hour
	w.OnCheck(func() {
		for _, e := range w.K.Exits {
			w.Violation("crash", "node %s exited: %s", e.Node, e.Msg)
		}
		calls := fp.ListCalls
		if len(calls) <= len(script) {
			w.Inconclusive("script not exhausted: %d of %d list calls", len(calls), len(script))
			return
		}
		// refused dials are failures the fake proxy never sees as a call: after a
		// "refused" step the agent fails once more (k+1) before the next call arrives.
		consecutive := 0
		maxK := 0
		for i := 0; i < len(script); i++ {
			st := script[i]
			if st.kind == "ok" {
				consecutive = 0
				continue
			}
			gapStart := calls[i].Done
			next := calls[i+1].At
			gap := next - gapStart
			k := consecutive
			var lo, hi time.Duration
			if st.kind == "refused" {
				// two sleeps: after this failure (k) and after the refused dial (k+1)
				lo = time.Duration(0.9*float64(envelope(k))) + time.Duration(0.9*float64(envelope(k+1)))
				hi = time.Duration(1.1*float64(envelope(k))) + time.Duration(1.1*float64(envelope(k+1)))
				consecutive += 2
			} else {
				lo = time.Duration(0.9 * float64(envelope(k)))
				hi = time.Duration(1.1 * float64(envelope(k)))
				consecutive++
			}
			if k > maxK {
				maxK = k
			}
			tol := time.Microsecond
			if gap <= 0 {
				w.Violation("backoff-positive", "after consecutive failure #%d (%s) the next list call started %v later: not a strictly positive delay", k+1, st.kind, gap)
			} else if gap < lo-tol || gap > hi+tol {
				w.Violation("backoff-envelope", "after consecutive failure #%d (%s) the next list call started after %v; expected between %v and %v", k+1, st.kind, gap, lo, hi)
			}
		}
		// no busy loop: list calls in any simulated second are bounded by what the envelope allows
		for i := range calls {
			cnt := 0
			for j := i; j < len(calls) && calls[j].At-calls[i].At < time.Second; j++ {
				cnt++
			}
			if cnt > 40 {
				w.Violation("busy-loop", "%d list calls started within one simulated second (from %v)", cnt, calls[i].At)
				break
			}
		}
		if maxK >= 12 {
			w.Probe("reached_cap")
		}
		if maxK >= 64 {
			w.Probe("reached_shift_64")
		}
		w.Probe("backoff_measured")
		// direct evaluation at argument values the loop cannot reach by running
		for _, n := range []uint{0, 1, 10, 11, 12, 13, 62, 63, 64, 65, 1 << 31, 1<<32 - 1, 1 << 32, 1<<32 + 1, 1 << 62, 1 << 63, math.MaxUint - 1, math.MaxUint} {
			for rep := 0; rep < 3; rep++ {
				d := utils.ExponentialBackoffDuration(n)
				kk := 64
				if n < 64 {
					kk = int(n)
				}
				lo := time.Duration(0.9 * float64(envelope(kk)))
				hi := time.Duration(1.1 * float64(envelope(kk)))
				if d <= 0 || d < lo-time.Microsecond || d > hi+time.Microsecond {
					w.Violation("backoff-direct", "delay for retry count %d is %v; expected within [%v, %v]", n, d, lo, hi)
				}
			}
		}
		w.Probe("direct_evaluation")
	})
}

// envelope is the nominal delay after k earlier consecutive failures: doubling
// from 1 ms, capped at 3 s.
func envelope(k int) time.Duration {
	if k >= 12 {
		return 3 * time.Second
	}
	d := time.Millisecond << uint(k)
	if d > 3*time.Second {
		d = 3 * time.Second
	}
	return d
}

var _ = fmt.Sprintf
