package harness

import (
	"bufio"
	"bytes"
	"fmt"
	"net"
	"sort"
	"strings"
	"sync"
	"time"

	"verif/sim"
)

func init() { register("C03", worldC03) }

type interim struct {
	Code   int
	Fields []hfield
}

type genResp struct {
	Interim  []interim
	Status   int
	Fields   []hfield
	Framing  string // cl, chunked, close
	Body     []byte
	Pieces   []int
	Pause    time.Duration
	Declared []string
	Trailers []hfield
	Head     bool
	// HeadDelay: the backend thinks this long before it sends its status line
	HeadDelay   time.Duration
	BigTrailers bool
}

func (g *genResp) bodyless() bool { return g.Head || g.Status == 204 || g.Status == 304 }

var respFieldNames = []string{"X-Custom", "x-lower", "Set-Cookie", "Content-Type", "Cache-Control", "ETag", "Location", "Vary", "X-Frame-Options", "Content-Language", "Link", "Server", "X-Request-Id", "Last-Modified", "Accept-Ranges", "Content-Disposition", "Warning", "X_Under"}
var respFieldValues = []string{"1", "", "a=b; Path=/; HttpOnly", "c=d; Max-Age=10", "text/plain; charset=utf-8", "application/json", "no-store", "W/\"v1\"", "/elsewhere?x=1", "Accept-Encoding, Cookie", "DENY", "en", "<https://x.test/>; rel=\"next\"", "harness/1.0", "abc-123", "Mon, 02 Jan 2006 15:04:05 GMT", "bytes", "attachment; filename=\"x.txt\"", "value  with  spaces", "comma,separated"}
var trailerNames = []string{"X-Checksum", "X-Trailer-A", "X-Trailer-B", "Server-Timing", "x-lower-trailer"}

func genResponse(t *sim.Tape, thorough bool) *genResp {
	g := &genResp{}
	switch t.Pick("statusclass", 6, 2, 2, 2, 1, 1) {
	case 0:
		g.Status = 200
	case 1:
		g.Status = []int{201, 202, 203, 206, 207, 226, 250, 299}[t.Choice(8, "2xx")]
	case 2:
		g.Status = []int{300, 301, 302, 303, 307, 308, 399}[t.Choice(7, "3xx")]
	case 3:
		g.Status = []int{400, 401, 403, 404, 409, 410, 418, 429, 451, 499}[t.Choice(10, "4xx")]
	case 4:
		g.Status = []int{500, 501, 502, 503, 504, 599}[t.Choice(6, "5xx")]
	case 5:
		g.Status = []int{204, 304}[t.Choice(2, "bodyless")]
	}
	g.Head = t.Rare(1, 10, "head")
	if t.Rare(1, 12, "slowhead") {
		g.HeadDelay = 32 * time.Second
	}
	n1 := t.Pick("interim", 6, 2, 1)
	for i := 0; i < n1; i++ {
		it := interim{Code: []int{103, 102, 100, 199}[t.Choice(4, "1xx")]}
		if it.Code == 103 {
			it.Fields = append(it.Fields, hfield{"Link", "</style.css>; rel=preload"})
		}
		g.Interim = append(g.Interim, it)
	}
	nf := t.Range(0, 7, "nfields")
	for i := 0; i < nf; i++ {
		name := respFieldNames[t.Choice(len(respFieldNames), "fname")]
		val := respFieldValues[t.Choice(len(respFieldValues), "fval")]
		low := strings.ToLower(name)
		if (low == "content-type" || low == "location" || low == "etag" || low == "last-modified" || low == "content-disposition") && (val == "" || hasField(g.Fields, name)) {
			continue
		}
		if t.Rare(1, 12, "longval") {
			val = strings.Repeat("w", []int{1000, 4096, 9000}[t.Choice(3, "longlen")])
		}
		g.Fields = append(g.Fields, hfield{name, val})
		if low == "set-cookie" || strings.HasPrefix(low, "x-") {
			for t.Rare(1, 3, "repeat") && len(g.Fields) < 14 {
				g.Fields = append(g.Fields, hfield{name, respFieldValues[t.Choice(len(respFieldValues), "fval2")]})
			}
		}
	}
	switch t.Pick("hop", 4, 1, 1, 1) {
	case 1:
		g.Fields = append(g.Fields, hfield{"Keep-Alive", "timeout=5"}, hfield{"Connection", "keep-alive"})
	case 2:
		g.Fields = append(g.Fields, hfield{"Proxy-Authenticate", "Basic realm=x"})
	case 3:
		g.Fields = append(g.Fields, hfield{"Connection", "X-Hop-Resp"}, hfield{"X-Hop-Resp", "1"})
	}
	if !g.bodyless() || g.Head {
		sizes := []int{0, 1, 2, 100, 4095, 4096, 4097, 32 << 10, 70 << 10}
		if thorough {
			sizes = append(sizes, 1<<20, 4<<20)
		}
		n := sizes[t.Choice(len(sizes), "bodysize")]
		g.Body = t.Sub("body").Bytes(n)
		g.Framing = []string{"cl", "chunked", "close"}[t.Pick("framing", 3, 4, 1)]
		np := t.Range(0, 5, "npieces")
		for i := 0; i < np; i++ {
			g.Pieces = append(g.Pieces, []int{1, 1, 2, 100, 4096, 20000}[t.Choice(6, "piece")])
		}
		g.Pause = []time.Duration{0, 0, time.Millisecond, 150 * time.Millisecond}[t.Choice(4, "pause")]
		if g.Framing == "chunked" && !g.Head {
			nd := t.Pick("ndeclared", 4, 3, 2, 1)
			for i := 0; i < nd; i++ {
				name := trailerNames[(t.Choice(len(trailerNames), "tname")+i)%len(trailerNames)]
				if !containsFold(g.Declared, name) {
					g.Declared = append(g.Declared, name)
					g.Trailers = append(g.Trailers, hfield{name, fmt.Sprintf("tv%d-%d", i, t.Choice(100, "tval"))})
					if t.Rare(1, 5, "trepeat") {
						g.Trailers = append(g.Trailers, hfield{name, "second"})
					}
				}
			}
			if t.Rare(1, 4, "undeclared") {
				g.Trailers = append(g.Trailers, hfield{"X-Undeclared", "u1"})
			}
			if t.Rare(1, 10, "bigtrailers") {
				// a trailer section of a few kilobytes (many fields, or two long ones)
				if t.Choice(2, "bigtrailerkind") == 0 {
					for i := 0; i < 30; i++ {
						g.Trailers = append(g.Trailers, hfield{fmt.Sprintf("X-Many-%02d", i), strings.Repeat("v", 50)})
					}
				} else {
					g.Trailers = append(g.Trailers, hfield{"X-Long-A", strings.Repeat("a", 1400)}, hfield{"X-Long-B", strings.Repeat("b", 1400)})
				}
				g.BigTrailers = true
			}
		}
	}
	return g
}

func containsFold(ss []string, s string) bool {
	for _, x := range ss {
		if strings.EqualFold(x, s) {
			return true
		}
	}
	return false
}

// write emits the response as exact wire bytes with the scripted pacing.
func (g *genResp) write(c net.Conn, declaredStyle int) {
	var b bytes.Buffer
	for _, it := range g.Interim {
		fmt.Fprintf(&b, "HTTP/1.1 %d Interim\r\n", it.Code)
		for _, f := range it.Fields {
			fmt.Fprintf(&b, "%s: %s\r\n", f.Name, f.Value)
		}
		b.WriteString("\r\n")
		c.Write(b.Bytes())
		b.Reset()
		if g.Pause > 0 {
			time.Sleep(g.Pause)
		}
	}
	if g.HeadDelay > 0 {
		time.Sleep(g.HeadDelay)
	}
	fmt.Fprintf(&b, "HTTP/1.1 %d Whatever Reason\r\n", g.Status)
	for _, f := range g.Fields {
		fmt.Fprintf(&b, "%s: %s\r\n", f.Name, f.Value)
	}
	if len(g.Declared) > 0 {
		if declaredStyle == 0 {
			fmt.Fprintf(&b, "Trailer: %s\r\n", strings.Join(g.Declared, ", "))
		} else {
			for _, d := range g.Declared {
				fmt.Fprintf(&b, "Trailer: %s\r\n", d)
			}
		}
	}
	if g.bodyless() && !g.Head {
		b.WriteString("\r\n")
		c.Write(b.Bytes())
		return
	}
	switch g.Framing {
	case "cl":
		fmt.Fprintf(&b, "Content-Length: %d\r\n\r\n", len(g.Body))
	case "chunked":
		b.WriteString("Transfer-Encoding: chunked\r\n\r\n")
	case "close":
		b.WriteString("Connection: close\r\n\r\n")
	}
	c.Write(b.Bytes())
	b.Reset()
	if g.Head {
		return
	}
	off := 0
	emit := func(p []byte) {
		if g.Framing == "chunked" {
			fmt.Fprintf(&b, "%x\r\n", len(p))
			b.Write(p)
			b.WriteString("\r\n")
			c.Write(b.Bytes())
			b.Reset()
		} else {
			c.Write(p)
		}
	}
	for _, n := range g.Pieces {
		if off >= len(g.Body) {
			break
		}
		if off+n > len(g.Body) {
			n = len(g.Body) - off
		}
		emit(g.Body[off : off+n])
		off += n
		if g.Pause > 0 {
			time.Sleep(g.Pause)
		}
	}
	if off < len(g.Body) {
		emit(g.Body[off:])
	}
	if g.Framing == "chunked" {
		b.WriteString("0\r\n")
		for _, f := range g.Trailers {
			fmt.Fprintf(&b, "%s: %s\r\n", f.Name, f.Value)
		}
		b.WriteString("\r\n")
		c.Write(b.Bytes())
	}
}

// worldC03: raw client -> real proxy -> real agent -> raw scripted backend
// that writes exact wire bytes with scripted pacing.
func worldC03(w *World) {
	t := w.T
	w.K.ChaosMult = []int{2, 1, 4, 16}[t.Choice(4, "chaos")]
	w.K.LatencyMenu = [][]time.Duration{{0}, {0, time.Millisecond, 10 * time.Millisecond}}[t.Choice(2, "latprofile")]
	w.K.SegmentPct = []int{0, 20, 70}[t.Choice(3, "segpct")]
	w.K.SendBuf = []int{64 << 10, 4 << 10, 1 << 20}[t.Choice(3, "sendbuf")]
	n := t.Range(1, 4, "requests")
	resps := make([]*genResp, n)
	for i := range resps {
		resps[i] = genResponse(t, w.Tier == "thorough")
	}
	declaredStyle := t.Choice(2, "declaredstyle")
	netfault := w.Cfg == "netfault"
	if netfault {
		// the agent's connections to the proxy are reset at tape-chosen offsets: a
		// response may then not arrive at all, but whatever arrives complete must be right
		nf := t.Range(1, 3, "nfaults")
		for i := 0; i < nf; i++ {
			w.K.Faults = append(w.K.Faults, &sim.NetFault{ToAddr: "proxy:80", ConnOrd: t.Range(1, 8, "faultconn"), Dir: t.Choice(2, "faultdir"), AtByte: int64([]int{0, 1, 60, 200, 300, 500, 4000, 5000}[t.Choice(8, "faultat")]), Kind: sim.FaultReset, Once: true})
		}
		for _, g := range resps {
			// slow producers keep uploads in flight when the fault hits
			if g.Pause == 0 {
				g.Pause = 20 * time.Millisecond
			}
		}
	}
	startProxy(w)
	rb := &rawBackend{}
	rb.Respond = func(c net.Conn, req *wireMsg, k int) bool {
		parts := strings.SplitN(req.StartLine, " ", 3)
		idx := -1
		if len(parts) == 3 {
			fmt.Sscanf(parts[1], "/m%03d", &idx)
		}
		if idx < 0 || idx >= n {
			fmt.Fprintf(c, "HTTP/1.1 404 Not Found\r\nContent-Length: 0\r\n\r\n")
			return true
		}
		g := resps[idx]
		g.write(c, declaredStyle)
		return g.Framing != "close" || g.bodyless()
	}
	startRawBackend(w, rb)
	startAgent(w)
	var wg sync.WaitGroup
	results := make([]c03Result, n)
	for i, g := range resps {
		i, g := i, g
		wg.Add(1)
		w.K.Spawn(fmt.Sprintf("client%d", i), func() {
			defer wg.Done()
			c, err := sim.Dial("tcp", "proxy:80")
			if err != nil {
				results[i].err = "dial: " + err.Error()
				return
			}
			defer c.Close()
			method := "GET"
			if g.Head {
				method = "HEAD"
			}
			fmt.Fprintf(c, "%s /m%03d HTTP/1.1\r\nHost: example.test\r\nAccept-Encoding: identity\r\nConnection: close\r\n\r\n", method, i)
			br := bufio.NewReader(c)
			for {
				m, err := readWireMessage(br, true, g.bodyless())
				if m != nil && strings.HasPrefix(m.StartLine, "HTTP/1.1 1") {
					w.K.Count("interim_seen_by_client")
					continue
				}
				results[i].msg = m
				if err != nil {
					results[i].err = err.Error()
				}
				return
			}
		})
	}
	w.K.Spawn("controller", func() {
		wg.Wait()
		w.K.Stop()
	})
	w.K.MaxSteps = 3000000
	g0 := resps[0]
	w.Sample = map[string]interface{}{"requests": n, "first": fmt.Sprintf("status=%d interim=%d fields=%d framing=%s body=%d pieces=%v pause=%v declared=%v trailers=%v head=%v", g0.Status, len(g0.Interim), len(g0.Fields), g0.Framing, len(g0.Body), g0.Pieces, g0.Pause, g0.Declared, g0.Trailers, g0.Head)}
	w.OnCheck(func() { checkC03(w, resps, results) })
}

type c03Result struct {
	msg *wireMsg
	err string
}

// checkC03 is the response-fidelity oracle shared by the HTTP/1.1 and h2c worlds.
func checkC03(w *World, resps []*genResp, results []c03Result) {
	for _, e := range w.K.Exits {
		w.Violation("crash", "node %s exited: %s", e.Node, e.Msg)
	}
	for i, g := range resps {
		r := results[i]
		if r.msg == nil || r.err != "" {
			w.Violation("progress", "the client did not receive a complete response | request %d: %s (backend status %d, framing %s, body %d, interim %d)", i, r.err, g.Status, g.Framing, len(g.Body), len(g.Interim))
			continue
		}
		m := r.msg
		var code int
		fmt.Sscanf(m.StartLine, "HTTP/1.1 %d", &code)
		interimNote := ""
		if len(g.Interim) > 0 {
			interimNote = " (final response preceded by 1xx interim responses)"
			w.Probe("interim_1xx")
		}
		if g.HeadDelay > 0 {
			w.Probe("response_head_after_half_a_minute")
		}
		if g.BigTrailers {
			w.Probe("trailer_section_of_several_kilobytes")
		}
		if code != g.Status {
			w.Violation("status", "client received a different final status code%s | backend %d client %d", interimNote, g.Status, code)
			continue
		}
		named := connectionNamed(g.Fields)
		sent := fieldLists(g.Fields)
		recv := fieldLists(m.Fields)
		for name, vals := range sent {
			if hopByHop[name] || named[name] || name == "content-length" {
				continue
			}
			if g.bodyless() && (name == "content-type" || name == "content-language" || name == "content-disposition" || name == "last-modified" || name == "etag") {
				continue
			}
			if !equalStrings(vals, recv[name]) {
				w.Violation("header", "an end-to-end response header field did not arrive with the same values in the same order%s | field %q backend %q client %q", interimNote, name, vals, recv[name])
			}
		}
		for name := range recv {
			if hopByHop[name] && name != "transfer-encoding" && name != "connection" && name != "trailer" {
				w.Violation("hop-by-hop", "a hop-by-hop response field was forwarded to the client | %q: %q", name, recv[name])
			}
		}
		if g.bodyless() {
			if len(m.Body) != 0 {
				w.Violation("body", "client received a body for a bodiless response | status %d head=%v got %d bytes", g.Status, g.Head, len(m.Body))
			}
			w.Probe("bodiless_response")
			continue
		}
		if !bytes.Equal(m.Body, g.Body) {
			w.Violation("body", "client received a different body | backend %d bytes (%s) client %d bytes", len(g.Body), g.Framing, len(m.Body))
		}
		// trailers: delivered as trailers, same values per name
		st := fieldLists(g.Trailers)
		rt := fieldLists(m.Trailers)
		class := fmt.Sprintf("%d declared", len(g.Declared))
		if len(g.Declared) > 1 {
			class = "several declared"
		}
		if len(g.Trailers) > len(g.Declared) && len(st) > len(g.Declared) {
			class += " + undeclared"
		}
		var names []string
		for k := range st {
			names = append(names, k)
		}
		sort.Strings(names)
		for _, name := range names {
			if !equalStrings(st[name], rt[name]) {
				w.Violation("trailer", "a trailer field did not reach the client as a trailer with the same values (%s) | trailer %q backend %q client trailers %q client headers %q", class, name, st[name], rt[name], recv[name])
			}
		}
		for _, name := range names {
			if _, asHeader := sent[name]; !asHeader && len(recv[name]) > 0 {
				w.Violation("trailer", "a field the backend sent only as a trailer reached the client in the header block | %q: %q", name, recv[name])
			}
		}
		for name := range rt {
			if _, ok := st[name]; !ok {
				w.Violation("trailer", "client received a trailer the backend did not send | %q: %q", name, rt[name])
			}
		}
		if len(g.Declared) > 1 {
			w.Probe("several_declared_trailers")
		}
		if len(g.Trailers) > 0 {
			w.Probe("trailers")
		}
		if len(g.Pieces) > 0 && g.Pieces[0] == 1 && len(g.Body) > 1 {
			w.Probe("one_byte_first_write")
		}
	}
}
