package harness

import (
	"bytes"
	"context"
	"fmt"
	"io"
	"log"
	"net"
	"net/http"
	"net/http/httputil"
	"net/url"
	"strings"
	"sync"
	"time"

	"github.com/google/inverting-proxy/utils/tcpbridge/connection"
	bridgebackend "github.com/google/inverting-proxy/utils/tcpbridge/tcp-bridge-backend"
	bridgefrontend "github.com/google/inverting-proxy/utils/tcpbridge/tcp-bridge-frontend"

	"verif/sim"
)

func init() {
	register("C15", worldC15)
	register("C16", worldC16)
}

// bridgeViaLB: the websocket leg of the bridge runs through an HTTP intermediary (a
// stock net/http/httputil reverse proxy on node "lb"), as in the deployments the
// bridge is meant for; such a hop forwards websocket frames and ends the whole
// tunnel as soon as either of its copy directions ends.
var bridgeViaLB bool

// bridgeLBNoHalfClose: the intermediary is of the kind that ends the whole tunnel
// as soon as either direction ends (most load balancers, and net/http/httputil
// before it learned to pass a half-close on); otherwise it is the stock reverse
// proxy of the toolchain, which forwards a TCP half-close.
var bridgeLBNoHalfClose bool

func chooseBridgePath(w *World) {
	k := w.T.Pick("via-http-intermediary", 2, 1, 1)
	bridgeViaLB = k != 0
	bridgeLBNoHalfClose = k == 2
	if bridgeViaLB {
		w.Probe("websocket_leg_through_http_intermediary")
	}
	if bridgeLBNoHalfClose {
		w.Probe("intermediary_without_half_close")
	}
}

// bridgeHopHangs: the hop the frontend dials accepts the TCP connection and never
// answers the websocket handshake (a wedged proxy or load balancer).
var bridgeHopHangs bool

func startBridge(w *World) {
	sim.SetArgs("tcp-bridge-backend", "-frontend-port=8080", "-backend-port=8081")
	w.K.Spawn("bback", bridgebackend.Main)
	target := "ws://bback:8080/"
	if bridgeHopHangs {
		target = "ws://mute:8080/"
		w.K.Spawn("mute", func() {
			l, err := sim.Listen("tcp", ":8080")
			if err != nil {
				panic(err)
			}
			for {
				c, err := l.Accept()
				if err != nil {
					return
				}
				go io.Copy(io.Discard, c) // reads, never answers, never closes
			}
		})
	}
	if bridgeViaLB {
		target = "ws://lb:8080/"
		w.K.Spawn("lb", func() {
			l, err := sim.Listen("tcp", ":8080")
			if err != nil {
				panic(err)
			}
			if bridgeLBNoHalfClose {
				for {
					c, err := l.Accept()
					if err != nil {
						return
					}
					go func() {
						b, err := sim.Dial("tcp", "bback:8080")
						if err != nil {
							c.Close()
							return
						}
						done := make(chan struct{}, 2)
						go func() { io.Copy(b, c); done <- struct{}{} }()
						go func() { io.Copy(c, b); done <- struct{}{} }()
						<-done
						c.Close()
						b.Close()
					}()
				}
			}
			u, _ := url.Parse("http://bback:8080")
			rp := httputil.NewSingleHostReverseProxy(u)
			rp.Transport = &http.Transport{DialContext: sim.DialContext}
			rp.ErrorLog = log.New(io.Discard, "", 0)
			http.Serve(l, rp)
		})
	}
	sim.SetArgs("tcp-bridge-frontend", "-frontend-port=9000", "-backend="+target)
	w.K.Spawn("bfront", bridgefrontend.Main)
}

// prngBytes is the deterministic content of one direction of one connection.
func prngBytes(tag string, n int) []byte {
	var seed uint64 = 1469598103934665603
	for i := 0; i < len(tag); i++ {
		seed = (seed ^ uint64(tag[i])) * 1099511628211
	}
	b := make([]byte, n)
	x := seed
	for i := range b {
		x ^= x << 13
		x ^= x >> 7
		x ^= x << 17
		b[i] = byte(x >> 24)
	}
	// make sure all 256 byte values occur early in long streams
	for i := 0; i < 256 && 16+i < n; i++ {
		b[16+i] = byte(i)
	}
	return b
}

type bridgeSide struct {
	Plan             []int // write sizes
	Pause            time.Duration
	ReadBuf          int
	CloseAfterWrites bool          // close once the plan is written
	CloseDelay       time.Duration // extra wait before closing
	Graceful         bool          // shut down the sending direction, read to end-of-stream, then close
	ReadStall        time.Duration // the reader pauses this long before its first read and once more after it
	// observations
	Sent     int
	SentDone time.Duration
	Got      []byte
	EOFAt    time.Duration
	SawEnd   bool
	ReadErr  string
	ClosedAt time.Duration
	Closed   bool
}

type bridgeConn struct {
	I      int
	C, S   bridgeSide // client side, server side
	SrvSaw bool
	// Greeted: the server's unprompted greeting arrived before the client wrote anything
	Greeted bool
	// Lib: the client is a program that embeds the bridge as a library: it calls
	// connection.DialWebsocket itself and writes to the returned net.Conn (empty
	// writes included) instead of going through the frontend program
	Lib bool
}

// bridgeGreeting, if non-empty, is what the TCP server sends on every accepted
// connection before it reads anything (a server-speaks-first protocol); clients
// then wait for it before they write.
var bridgeGreeting []byte

func genSide(t *sim.Tape, thorough bool) bridgeSide {
	var s bridgeSide
	sizes := []int{0, 1, 2, 100, 1024, 4096, 5000, 70000}
	if thorough {
		sizes = append(sizes, 300000)
	}
	n := t.Range(0, 6, "nwrites")
	for i := 0; i < n; i++ {
		s.Plan = append(s.Plan, sizes[t.Choice(len(sizes), "wsize")])
	}
	s.Pause = []time.Duration{0, 0, time.Millisecond, 50 * time.Millisecond}[t.Choice(4, "wpause")]
	s.ReadBuf = []int{32 << 10, 1, 7, 1024, 4096, 100000}[t.Choice(6, "readbuf")]
	// (the longest stall spans the keep-alive periods that intermediaries commonly use)
	s.ReadStall = []time.Duration{0, 0, 0, 1500 * time.Millisecond, 4 * time.Second, 0, 0, 21 * time.Second}[t.Choice(8, "readstall")]
	return s
}

func (s *bridgeSide) total() int {
	n := 0
	for _, x := range s.Plan {
		n += x
	}
	return n
}

// runSide writes the plan to c and reads until EOF, recording everything.
func runSide(w *World, c net.Conn, s *bridgeSide, content []byte, mu *sync.Mutex) {
	var wg sync.WaitGroup
	wg.Add(1)
	go func() {
		defer wg.Done()
		buf := make([]byte, s.ReadBuf)
		stalls := 0
		if s.ReadStall > 0 {
			time.Sleep(s.ReadStall)
		}
		for {
			n, err := c.Read(buf)
			if s.ReadStall > 0 && stalls == 0 && n > 0 && err == nil {
				stalls++
				time.Sleep(s.ReadStall)
			}
			mu.Lock()
			s.Got = append(s.Got, buf[:n]...)
			mu.Unlock()
			if err != nil {
				mu.Lock()
				s.SawEnd = true
				s.EOFAt = w.K.Now()
				if err != io.EOF {
					s.ReadErr = err.Error()
				}
				mu.Unlock()
				return
			}
		}
	}()
	off := 0
	for _, n := range s.Plan {
		if _, err := c.Write(content[off : off+n]); err != nil {
			break
		}
		off += n
		mu.Lock()
		s.Sent = off
		mu.Unlock()
		if s.Pause > 0 {
			time.Sleep(s.Pause)
		}
	}
	mu.Lock()
	s.SentDone = w.K.Now()
	mu.Unlock()
	if s.CloseAfterWrites {
		if s.CloseDelay > 0 {
			time.Sleep(s.CloseDelay)
		}
		mu.Lock()
		s.Closed = true
		s.ClosedAt = w.K.Now()
		mu.Unlock()
		if cw, ok := c.(interface{ CloseWrite() error }); ok && s.Graceful {
			cw.CloseWrite()
		} else {
			c.Close()
		}
	}
	wg.Wait()
}

func chooseGreeting(w *World) {
	bridgeGreeting = nil
	if w.T.Rare(1, 3, "server-speaks-first") {
		bridgeGreeting = []byte("220 greeting from the server\r\n")
	}
}

// bridgeWorld runs n bridged connections; the server learns the connection's
// index from an 8-byte tag the client sends first.
func bridgeWorld(w *World, mu *sync.Mutex, conns []*bridgeConn, after func()) {
	startBridge(w)
	w.K.Spawn("bback", func() {
		l, err := sim.Listen("tcp", ":8081")
		if err != nil {
			panic(err)
		}
		for {
			c, err := l.Accept()
			if err != nil {
				return
			}
			go func() {
				if len(bridgeGreeting) > 0 {
					c.Write(bridgeGreeting)
				}
				tag := make([]byte, 8)
				if _, err := io.ReadFull(c, tag); err != nil {
					c.Close()
					return
				}
				if bytes.HasPrefix(tag, []byte("GET ")) || bytes.HasPrefix(tag, []byte("POST")) || bytes.HasPrefix(tag, []byte("PUT ")) {
					servePassthrough(w, c, tag)
					return
				}
				var i int
				fmt.Sscanf(string(tag), "conn%03d:", &i)
				if i < 0 || i >= len(conns) {
					c.Close()
					return
				}
				bc := conns[i]
				mu.Lock()
				bc.SrvSaw = true
				mu.Unlock()
				runSide(w, c, &bc.S, prngBytes(fmt.Sprintf("s2c-%d", i), bc.S.total()), mu)
				c.Close()
			}()
		}
	})
	var wg sync.WaitGroup
	for _, bc := range conns {
		bc := bc
		wg.Add(1)
		w.K.Spawn(fmt.Sprintf("tcpclient%d", bc.I), func() {
			defer wg.Done()
			var c net.Conn
			var err error
			if bc.Lib {
				target := "ws://bback:8080"
				if bridgeViaLB {
					target = "ws://lb:8080"
				}
				u, _ := url.Parse(target + connection.StreamingPath)
				c, err = connection.DialWebsocket(context.Background(), u, nil)
			} else {
				c, err = sim.Dial("tcp", "bfront:9000")
			}
			if err != nil {
				mu.Lock()
				bc.C.ReadErr = "dial: " + err.Error()
				mu.Unlock()
				return
			}
			if len(bridgeGreeting) > 0 {
				g := make([]byte, len(bridgeGreeting))
				if _, err := io.ReadFull(c, g); err != nil || !bytes.Equal(g, bridgeGreeting) {
					mu.Lock()
					bc.C.ReadErr = fmt.Sprintf("greeting: %v %q", err, g)
					if err != nil {
						// the connection ended before the greeting arrived
						bc.C.SawEnd = true
						bc.C.EOFAt = w.K.Now()
					}
					mu.Unlock()
					c.Close()
					return
				}
				mu.Lock()
				bc.Greeted = true
				mu.Unlock()
			}
			c.Write([]byte(fmt.Sprintf("conn%03d:", bc.I)))
			runSide(w, c, &bc.C, prngBytes(fmt.Sprintf("c2s-%d", bc.I), bc.C.total()), mu)
			c.Close()
		})
	}
	w.K.Spawn("controller", func() {
		after()
		w.K.Stop()
	})
}

var passMu sync.Mutex
var passSeen []string

func servePassthrough(w *World, c net.Conn, first []byte) {
	defer c.Close()
	br := io.MultiReader(bytes.NewReader(first), c)
	buf := make([]byte, 0, 4096)
	tmp := make([]byte, 4096)
	for {
		n, err := br.Read(tmp)
		buf = append(buf, tmp[:n]...)
		if i := bytes.Index(buf, []byte("\r\n\r\n")); i >= 0 {
			head := string(buf[:i])
			body := buf[i+4:]
			cl := 0
			for _, line := range strings.Split(head, "\r\n") {
				if strings.HasPrefix(strings.ToLower(line), "content-length:") {
					fmt.Sscanf(strings.TrimSpace(line[15:]), "%d", &cl)
				}
			}
			for len(body) < cl {
				n, err := br.Read(tmp)
				body = append(body, tmp[:n]...)
				if err != nil {
					break
				}
			}
			passMu.Lock()
			passSeen = append(passSeen, strings.SplitN(head, "\r\n", 2)[0]+"|"+string(body))
			passMu.Unlock()
			fmt.Fprintf(c, "HTTP/1.1 200 OK\r\nContent-Length: 4\r\nConnection: close\r\n\r\npass")
			return
		}
		if err != nil {
			return
		}
	}
}

// worldC15: byte streams through the bridge, both directions at once.
func worldC15(w *World) {
	t := w.T
	thorough := w.Tier == "thorough"
	w.K.ChaosMult = []int{2, 1, 4}[t.Choice(3, "chaos")]
	w.K.LatencyMenu = [][]time.Duration{{0}, {0, time.Millisecond, 10 * time.Millisecond}}[t.Choice(2, "latprofile")]
	w.K.SegmentPct = []int{0, 30, 70}[t.Choice(3, "segpct")]
	w.K.SendBuf = []int{64 << 10, 4 << 10, 1 << 10}[t.Choice(3, "sendbuf")]
	nMax := 4
	if thorough {
		nMax = 32
	}
	n := t.Range(1, nMax, "conns")
	conns := make([]*bridgeConn, n)
	for i := range conns {
		conns[i] = &bridgeConn{I: i, C: genSide(t, thorough), S: genSide(t, thorough)}
		if t.Rare(1, 5, "library-client") {
			conns[i].Lib = true
			w.Probe("client_embeds_the_bridge_as_a_library")
		}
		if t.Rare(1, 3, "orderly-end") {
			// both peers end their direction when they have written everything, read to
			// the end of the opposite direction and only then close: nothing may be lost
			for _, sd := range []*bridgeSide{&conns[i].C, &conns[i].S} {
				sd.CloseAfterWrites = true
				sd.Graceful = true
			}
			w.Probe("orderly_end_of_both_directions")
		}
	}
	passthrough := t.Rare(1, 3, "passthrough")
	chooseBridgePath(w)
	chooseGreeting(w)
	if len(bridgeGreeting) > 0 {
		passthrough = false // the greeting is not HTTP
	}
	passBody := "pass-body-" + strings.Repeat("z", t.Choice(3000, "passlen"))
	slowPass := t.Rare(1, 3, "slowpassthrough")
	passPath := []string{"/some/path?x=1", "/some/path?x=1", "/objects//2024/report.bin", "/a/./b?x=1", "/a/../b", "//double/start"}[t.Choice(6, "passpath")]
	passStatus := ""
	mu := &sync.Mutex{}
	bridgeWorld(w, mu, conns, func() {
		if passthrough {
			cl := w.Client()
			var reqBody io.Reader = strings.NewReader(passBody)
			if slowPass {
				// the body arrives in two halves, six seconds apart
				pr, pw := io.Pipe()
				go func() {
					pw.Write([]byte(passBody[:len(passBody)/2]))
					time.Sleep(6 * time.Second)
					pw.Write([]byte(passBody[len(passBody)/2:]))
					pw.Close()
				}()
				reqBody = pr
				w.Probe("slow_passthrough_upload")
			}
			req, _ := http.NewRequest("POST", "http://bback:8080"+passPath, reqBody)
			if slowPass {
				req.ContentLength = int64(len(passBody))
			}
			req.Header.Set("X-Pass", "1")
			resp, err := cl.Do(req)
			if err != nil {
				passStatus = "ERR " + err.Error()
			} else {
				b, _ := io.ReadAll(resp.Body)
				resp.Body.Close()
				passStatus = fmt.Sprintf("%d %s", resp.StatusCode, b)
			}
		}
		// wait until every planned byte has arrived, or nothing has moved for 90 s (a reader may stall twice for 21 s)
		last, still := -1, 0
		for i := 0; i < 20000 && still < 180; i++ {
			time.Sleep(500 * time.Millisecond)
			mu.Lock()
			done := true
			got := 0
			for _, bc := range conns {
				if len(bc.S.Got) < bc.C.total() || len(bc.C.Got) < bc.S.total() {
					done = false
				}
				got += len(bc.S.Got) + len(bc.C.Got)
			}
			mu.Unlock()
			if done {
				break
			}
			if got == last {
				still++
			} else {
				still = 0
			}
			last = got
		}
		time.Sleep(time.Second)
	})
	w.K.Horizon = time.Hour
	w.K.MaxSteps = 4000000
	w.Sample = map[string]interface{}{"conns": n, "first_client_writes": conns[0].C.Plan, "first_server_writes": conns[0].S.Plan, "read_bufs": []int{conns[0].C.ReadBuf, conns[0].S.ReadBuf}, "sendbuf": w.K.SendBuf, "passthrough": passthrough}
	w.OnCheck(func() {
		for _, e := range w.K.Exits {
			w.Violation("crash", "node %s exited: %s", e.Node, e.Msg)
		}
		both := false
		mu.Lock()
		defer mu.Unlock()
		for _, bc := range conns {
			if bc.C.ReadErr != "" && strings.HasPrefix(bc.C.ReadErr, "dial") {
				w.Violation("connect", "could not connect through the bridge | %s", bc.C.ReadErr)
				continue
			}
			if len(bridgeGreeting) > 0 {
				w.Probe("server_speaks_first")
				if !bc.Greeted {
					w.Violation("stream", "what the server sent before the client had written anything never reached the client | connection %d: %s", bc.I, bc.C.ReadErr)
					continue
				}
			}
			c2s := prngBytes(fmt.Sprintf("c2s-%d", bc.I), bc.C.total())
			s2c := prngBytes(fmt.Sprintf("s2c-%d", bc.I), bc.S.total())
			checkStream(w, fmt.Sprintf("connection %d client->server", bc.I), c2s, bc.S.Got, bc.C.Plan)
			checkStream(w, fmt.Sprintf("connection %d server->client", bc.I), s2c, bc.C.Got, bc.S.Plan)
			if bc.C.total() > 0 && bc.S.total() > 0 {
				both = true
			}
			if bc.C.total() > 65536 || bc.S.total() > 65536 {
				w.Probe("stream_larger_than_64k")
			}
			if (bc.C.ReadStall > 0 && bc.S.total() > 65536) || (bc.S.ReadStall > 0 && bc.C.total() > 65536) {
				w.Probe("slow_reader_with_bulk_data")
			}
			if (bc.C.ReadStall > 20*time.Second && bc.S.total() > 16384) || (bc.S.ReadStall > 20*time.Second && bc.C.total() > 16384) {
				w.Probe("reader_stalled_for_20s_with_data_backed_up")
			}
		}
		if both {
			w.Probe("both_directions_at_once")
		}
		if n > 1 {
			w.Probe("concurrent_connections")
		}
		if passthrough {
			w.Probe("passthrough_request")
			if passStatus != "200 pass" {
				w.Violation("passthrough", "a non-bridge HTTP request to the bridge backend was not passed through | got %q", passStatus)
			}
			found := false
			passMu.Lock()
			for _, p := range passSeen {
				if p == "POST "+passPath+" HTTP/1.1|"+passBody {
					found = true
				}
			}
			passMu.Unlock()
			if !found && passStatus == "200 pass" {
				w.Violation("passthrough", "the passed-through request did not reach the backend port unchanged")
			}
		}
	})
}

func checkStream(w *World, what string, sent, got []byte, plan []int) {
	if bytes.Equal(sent, got) {
		return
	}
	i := 0
	for i < len(sent) && i < len(got) && sent[i] == got[i] {
		i++
	}
	w.Violation("stream", "a bridged byte stream did not arrive complete, in order and unmodified | %s: sent %d bytes, received %d, first difference at offset %d (writes %v)", what, len(sent), len(got), i, plan)
}

// worldC16: closing one end closes the other.
func worldC16(w *World) {
	t := w.T
	w.K.ChaosMult = []int{2, 1, 4}[t.Choice(3, "chaos")]
	w.K.LatencyMenu = [][]time.Duration{{0}, {0, time.Millisecond, 10 * time.Millisecond}}[t.Choice(2, "latprofile")]
	n := t.Range(1, 4, "conns")
	if w.Tier == "thorough" {
		n = t.Range(1, 24, "conns")
	}
	w.K.SendBuf = []int{64 << 10, 4 << 10, 1 << 10}[t.Choice(3, "sendbuf")]
	conns := make([]*bridgeConn, n)
	for i := range conns {
		bc := &bridgeConn{I: i, C: genSide(t, false), S: genSide(t, false)}
		// who closes: client, server, or both (at different times)
		switch t.Pick("closer", 3, 3, 1) {
		case 0:
			bc.C.CloseAfterWrites = true
		case 1:
			bc.S.CloseAfterWrites = true
		case 2:
			bc.C.CloseAfterWrites = true
			bc.S.CloseAfterWrites = true
		}
		bc.C.Graceful = t.Choice(2, "cgraceful") == 1
		bc.S.Graceful = t.Choice(2, "sgraceful") == 1
		bc.C.CloseDelay = []time.Duration{0, time.Millisecond, 200 * time.Millisecond, 5 * time.Second}[t.Choice(4, "cdelay")]
		bc.S.CloseDelay = []time.Duration{0, time.Millisecond, 200 * time.Millisecond, 5 * time.Second}[t.Choice(4, "sdelay")]
		conns[i] = bc
	}
	const budget = 60 * time.Second
	chooseBridgePath(w)
	chooseGreeting(w)
	// the TCP server may be down: every dial of the bridge backend is refused; each
	// client must then see the end of its connection, and nothing may stay open
	serverDown := t.Rare(1, 8, "serverdown")
	if serverDown {
		w.K.Faults = append(w.K.Faults, &sim.NetFault{ToAddr: "bback:8081", ConnOrd: -1, Kind: sim.FaultRefuse})
		for _, bc := range conns {
			bc.C.CloseAfterWrites, bc.S.CloseAfterWrites = false, false
		}
		w.Probe("tcp_server_down")
	}
	// ... or the hop behind the frontend hangs: same expectation
	bridgeHopHangs = !serverDown && !bridgeViaLB && t.Rare(1, 10, "hop-hangs")
	if bridgeHopHangs {
		for _, bc := range conns {
			bc.C.CloseAfterWrites, bc.S.CloseAfterWrites = false, false
		}
		serverDown = true // (for the oracle: the TCP server is never reached)
		w.Probe("next_hop_never_answers_the_handshake")
	}
	mu := &sync.Mutex{}
	bridgeWorld(w, mu, conns, func() {
		// everything is written and closed within ~10 s; then the budget
		time.Sleep(20*time.Second + budget)
	})
	_ = mu
	w.K.Horizon = time.Hour
	w.K.MaxSteps = 3000000
	c0 := conns[0]
	w.Sample = map[string]interface{}{"conns": n, "first": fmt.Sprintf("client writes %v closes=%v after %v; server writes %v closes=%v after %v", c0.C.Plan, c0.C.CloseAfterWrites, c0.C.CloseDelay, c0.S.Plan, c0.S.CloseAfterWrites, c0.S.CloseDelay)}
	w.OnCheck(func() {
		for _, e := range w.K.Exits {
			w.Violation("crash", "node %s exited: %s", e.Node, e.Msg)
		}
		mu.Lock()
		defer mu.Unlock()
		for _, bc := range conns {
			if serverDown {
				if !bc.C.SawEnd {
					w.Violation("close-propagation", "the TCP server could not be reached, yet the client never observed the end of its connection | connection %d still open %v later", bc.I, budget)
				}
				continue
			}
			if !bc.SrvSaw {
				w.Violation("connect", "a client connection never reached the TCP server through the bridge | connection %d", bc.I)
				continue
			}
			c2s := prngBytes(fmt.Sprintf("c2s-%d", bc.I), bc.C.total())
			s2c := prngBytes(fmt.Sprintf("s2c-%d", bc.I), bc.S.total())
			// the peer that stays must see EOF (or a reset) after everything sent before the close
			type dir struct {
				closer, other *bridgeSide
				sent          []byte
				name          string
			}
			for _, d := range []dir{{&bc.C, &bc.S, c2s, "client closed: server"}, {&bc.S, &bc.C, s2c, "server closed: client"}} {
				if !d.closer.Closed {
					continue
				}
				if d.other.Closed && !d.other.Graceful && d.other.ClosedAt <= d.closer.ClosedAt {
					continue // the other side had torn its connection down first
				}
				// (a peer that only ended its own sending direction earlier still
				// reads, and must see the end of the opposite direction)
				w.Probe("one_side_closed_first")
				if !d.other.SawEnd {
					w.Violation("close-propagation", "after one TCP peer closed, the other never observed end-of-stream | %s side still open %v after the close at %v (connection %d)", d.name, budget, d.closer.ClosedAt, bc.I)
					continue
				}
				if d.other.EOFAt-d.closer.ClosedAt > budget {
					w.Violation("close-propagation", "end-of-stream reached the other peer too late | %s saw it %v after the close", d.name, d.other.EOFAt-d.closer.ClosedAt)
				}
				// data sent towards the surviving peer before the close must have arrived
				// before its end-of-stream. A peer that closes while inbound data is still
				// unread resets the connection (as TCP does) and a reset discards data in
				// flight, so completeness is only required when the stream ended cleanly.
				if !d.closer.Graceful || (d.other.Closed && !d.other.Graceful) {
					continue
				}
				if d.other.ReadErr != "" && !strings.Contains(d.other.ReadErr, "reset") {
					continue
				}
				w.Probe("graceful_close_complete_data")
				if d.other.ReadStall > 0 && len(d.sent) > 65536 {
					w.Probe("graceful_close_slow_reader_bulk_data")
				}
				if !bytes.Equal(d.other.Got, d.sent) {
					w.Violation("close-propagation", "the surviving peer observed end-of-stream without having received everything sent before the close | %s got %d of %d bytes (its stream ended with %q)", d.name, len(d.other.Got), len(d.sent), d.other.ReadErr)
				}
			}
		}
		// no bridged connection outlives both of its endpoints
		open := w.K.OpenConns(func(local, remote, tag string) bool {
			return strings.HasPrefix(remote, "bback:8080") || strings.HasPrefix(local, "bback:8080") || strings.HasPrefix(remote, "bback:8081") || strings.HasPrefix(local, "bfront:9000") || strings.HasPrefix(remote, "mute:8080")
		})
		allClosed := true
		for _, bc := range conns {
			if serverDown {
				// the server side never existed; the client closes after having seen the end
				if !bc.C.SawEnd {
					allClosed = false
				}
				continue
			}
			if !(bc.C.Closed || bc.C.SawEnd) || !(bc.S.Closed || bc.S.SawEnd) {
				allClosed = false
			}
		}
		if allClosed && open > 0 {
			w.Violation("leak", "bridge connections are still open although both TCP endpoints of every bridged connection are gone | %d endpoints open", open)
		}
		if n > 1 {
			w.Probe("several_connections")
		}
	})
}
