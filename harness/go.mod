module verif/harness

go 1.26

// Placeholder that marks the module root. Every build uses a generated
// -modfile that carries /repo's own requirements (see tools/vcheck/build.go).
