package harness

import (
	"fmt"
	"io"
	"net/http"
	"sort"
	"strings"
	"sync"
	"time"

	"github.com/gorilla/websocket"

	"verif/sim"
)

func init() { register("C09", worldC09) }

type seenReq struct {
	Token  string
	Header http.Header
	WS     bool
	Path   string
}

// recordingBackend serves plain HTTP and websocket upgrades on agenthost:8080
// and records the headers of everything it receives.
type recordingBackend struct {
	mu   sync.Mutex
	Seen []seenReq
	// OnWS, if set, runs the websocket session (default: read until close).
	OnWS func(c *websocket.Conn, r *http.Request)
	// OnHTTP, if set, answers plain requests (default: 200 with token echo).
	OnHTTP func(rw http.ResponseWriter, r *http.Request)
	// Pre, if set, may answer any request (including websocket handshakes) itself.
	Pre func(rw http.ResponseWriter, r *http.Request) bool
	// Delay, if set, makes the backend wait before it looks at a request (a slow
	// websocket handshake, for instance).
	Delay func(r *http.Request) time.Duration
}

func startRecordingBackend(w *World) *recordingBackend {
	rb := &recordingBackend{}
	up := websocket.Upgrader{CheckOrigin: func(*http.Request) bool { return true }}
	w.K.Spawn("agenthost", func() {
		l, err := sim.Listen("tcp", ":8080")
		if err != nil {
			panic(err)
		}
		http.Serve(l, http.HandlerFunc(func(rw http.ResponseWriter, r *http.Request) {
			tok := r.Header.Get("X-Token")
			if tok == "" {
				tok = r.URL.Query().Get("t")
			}
			isWS := websocket.IsWebSocketUpgrade(r)
			rb.mu.Lock()
			rb.Seen = append(rb.Seen, seenReq{Token: tok, Header: r.Header.Clone(), WS: isWS, Path: r.URL.RequestURI()})
			pre := rb.Pre
			delay := rb.Delay
			rb.mu.Unlock()
			if delay != nil {
				if d := delay(r); d > 0 {
					time.Sleep(d)
				}
			}
			if pre != nil && pre(rw, r) {
				return
			}
			if isWS {
				c, err := up.Upgrade(rw, r, nil)
				if err != nil {
					return
				}
				defer c.Close()
				if rb.OnWS != nil {
					rb.OnWS(c, r)
					return
				}
				for {
					if _, _, err := c.ReadMessage(); err != nil {
						return
					}
				}
			}
			if rb.OnHTTP != nil {
				rb.OnHTTP(rw, r)
				return
			}
			io.Copy(io.Discard, r.Body)
			rw.Header().Set("X-Echo-Token", tok)
			rw.Write([]byte("ok:" + tok))
		}))
	})
	return rb
}

// worldC09: several users' requests in flight at once, each with forged /
// repeated / odd-case identity and credential headers supplied by the client.
func worldC09(w *World) {
	t := w.T
	w.K.ChaosMult = []int{2, 1, 4}[t.Choice(3, "chaos")]
	forward := t.Choice(2, "forward-user-id") == 1
	strip := t.Choice(2, "strip-credentials") == 1
	shim := t.Choice(2, "shim") == 1
	sessions := t.Choice(2, "sessions") == 1
	n := t.Range(2, 6, "requests")
	type creq struct {
		id, user   string
		forgedUser []string
		forgedName string
		auth       []string
		authName   string
		ws         bool
		connNamed  bool
		upgrade    bool
		oddNames   bool
	}
	reqs := make([]*creq, n)
	fp := NewFakeProxy(w)
	var ids []string
	for i := range reqs {
		c := &creq{id: fmt.Sprintf("r%02d", i), user: []string{"user0@example.com", "user1@example.com", "user2@example.com", "dev+oncall@example.com", "svc%2Bbatch@example.com", "accounts.example.com:1234%20x", ""}[t.Choice(7, "user")]}
		c.forgedName = []string{"X-Inverting-Proxy-User-ID", "x-inverting-proxy-user-id", "X-INVERTING-PROXY-USER-ID", "X-Inverting-Proxy-User-Id"}[t.Choice(4, "forgedname")]
		switch t.Pick("forged", 2, 3, 2, 2) {
		case 1:
			c.forgedUser = []string{"admin@evil.example"}
		case 2:
			c.forgedUser = []string{"admin@evil.example", c.user, ""}
		case 3:
			// the client's own identity first, a forged one after it
			c.forgedUser = []string{c.user, "admin@evil.example"}
		}
		c.authName = []string{"Authorization", "authorization", "AUTHORIZATION"}[t.Choice(3, "authname")]
		switch t.Pick("auth", 2, 3, 2) {
		case 1:
			c.auth = []string{"Bearer secret-" + c.id}
		case 2:
			c.auth = []string{"Basic Zm9vOmJhcg==", "Bearer other-" + c.id}
		}
		c.ws = shim && t.Rare(1, 2, "ws?")
		var hdr []string
		// (some clients put a space between a header name and the colon)
		sp := []string{"", "", "", " "}[t.Choice(4, "namespace")]
		for _, v := range c.forgedUser {
			hdr = append(hdr, c.forgedName+sp+": "+v)
		}
		for _, v := range c.auth {
			hdr = append(hdr, c.authName+sp+": "+v)
		}
		if sp != "" && (len(c.forgedUser) > 0 || len(c.auth) > 0) {
			c.oddNames = true // (such a request may be refused as a whole)
			w.Probe("header_name_followed_by_space")
		}
		hdr = append(hdr, "X-Token: "+c.id)
		// a plain (non-shim) protocol upgrade request
		c.upgrade = !c.ws && t.Rare(1, 5, "upgrade")
		// the client may declare the very headers the backend trusts as hop-by-hop
		up := ""
		if c.upgrade {
			up = "Upgrade, "
			hdr = append(hdr, "Upgrade: websocket", "Sec-WebSocket-Version: 13", "Sec-WebSocket-Key: dGhlIHNhbXBsZSBub25jZQ==")
		}
		switch t.Pick("connection", 5, 1, 1, 1) {
		case 0:
			if c.upgrade {
				hdr = append(hdr, "Connection: Upgrade")
			}
		case 1:
			hdr = append(hdr, "Connection: "+up+c.forgedName)
			c.connNamed = true
		case 2:
			hdr = append(hdr, "Connection: "+up+"keep-alive, x-inverting-proxy-user-id, X-Token-Other")
			c.connNamed = true
		case 3:
			hdr = append(hdr, "Connection: "+up+c.authName)
		}
		var raw string
		if c.ws {
			// (the URL the page's script asked for may carry user info)
			body := "ws://" + []string{"", "", "alice:s3cret@", "token@", ":pw@"}[t.Choice(5, "ws-userinfo")] + "example.test/socket?t=" + c.id
			if strings.Contains(body, "@") {
				w.Probe("shim_open_url_with_user_info")
			}
			raw = fmt.Sprintf("POST /shim/open HTTP/1.1\r\nHost: example.test\r\n%s\r\nContent-Length: %d\r\n\r\n%s", strings.Join(hdr, "\r\n"), len(body), body)
		} else {
			path := []string{"/p/" + c.id, "/p/" + c.id, "/shim-assets/app.js?t=" + c.id, "/shimmed/" + c.id, "/shim.json"}[t.Choice(5, "plainpath")]
			raw = fmt.Sprintf("GET %s HTTP/1.1\r\nHost: example.test\r\n%s\r\n\r\n", path, strings.Join(hdr, "\r\n"))
		}
		fp.AddRequest(c.id, []byte(raw), c.user)
		reqs[i] = c
		ids = append(ids, c.id)
	}
	listed := 0
	fp.OnList = func(k int, r *http.Request) (int, []byte) {
		if listed < len(ids) {
			// hand the IDs out in one or several replies
			m := len(ids) - listed
			if k%2 == 1 && m > 1 {
				m = 1
			}
			rep := ids[listed : listed+m]
			listed += m
			return 200, jsonList(rep)
		}
		return 0, nil
	}
	fp.Start()
	rb := startRecordingBackend(w)
	// a backend that is still starting up: the first websocket handshake for a token
	// is answered 503, later ones are accepted
	if t.Rare(1, 3, "rejectfirsthandshake") {
		rejected := map[string]bool{}
		var rmu sync.Mutex
		rb.Pre = func(rw http.ResponseWriter, r *http.Request) bool {
			if !websocket.IsWebSocketUpgrade(r) {
				return false
			}
			tok := r.Header.Get("X-Token")
			if tok == "" {
				tok = r.URL.Query().Get("t")
			}
			rmu.Lock()
			first := !rejected[tok]
			rejected[tok] = true
			rmu.Unlock()
			if first {
				w.K.Count("fault.backend_rejects_first_websocket_handshake")
				http.Error(rw, "starting up", 503)
				return true
			}
			return false
		}
	}
	rb.OnHTTP = func(rw http.ResponseWriter, r *http.Request) {
		// a little latency so that several users' requests overlap
		time.Sleep(time.Duration(len(r.Header.Get("X-Token"))%3) * 10 * time.Millisecond)
		rw.Write([]byte("ok"))
	}
	var args []string
	if forward {
		args = append(args, "-forward-user-id")
	}
	if strip {
		args = append(args, "-strip-credentials")
	}
	if shim {
		args = append(args, "-shim-websockets", "-shim-path=shim")
	}
	if sessions {
		args = append(args, "-session-cookie-name=psess")
	}
	startAgent(w, args...)
	w.K.Spawn("controller", func() {
		for i := 0; i < 600; i++ {
			time.Sleep(100 * time.Millisecond)
			fp.mu.Lock()
			done := 0
			for _, id := range ids {
				if len(fp.Uploads[id]) > 0 && fp.Uploads[id][0].Status != 0 {
					done++
				}
			}
			fp.mu.Unlock()
			if done == len(ids) {
				break
			}
		}
		w.K.Stop()
	})
	w.Sample = map[string]interface{}{"forward_user_id": forward, "strip_credentials": strip, "shim": shim, "sessions": sessions, "requests": n, "first": fmt.Sprintf("%+v", *reqs[0])}
	w.OnCheck(func() {
		for _, e := range w.K.Exits {
			w.Violation("crash", "node %s exited: %s", e.Node, e.Msg)
		}
		byTok := map[string][]seenReq{}
		for _, s := range rb.Seen {
			byTok[s.Token] = append(byTok[s.Token], s)
		}
		for _, c := range reqs {
			seen := byTok[c.id]
			if len(seen) == 0 {
				if !c.oddNames {
					w.Violation("progress", "request %s (ws=%v) never reached the backend", c.id, c.ws)
				}
				continue
			}
			for _, s := range seen {
				kind := "HTTP request"
				if s.WS {
					kind = "websocket handshake"
				}
				if forward {
					var vals []string
					for k, vs := range s.Header {
						if strings.EqualFold(strings.TrimSpace(k), "X-Inverting-Proxy-User-ID") {
							vals = append(vals, vs...)
						}
					}
					sort.Strings(vals)
					if len(vals) != 1 || vals[0] != c.user {
						w.Violation("user-id", "%s: backend received %d user-ID value(s) %q instead of exactly the asserted identity (request %s, asserted %q, client supplied %d value(s))", kind, len(vals), vals, c.id, c.user, len(c.forgedUser))
					}
				}
				if strip {
					for k, vs := range s.Header {
						if strings.EqualFold(strings.TrimSpace(k), "Authorization") {
							w.Violation("credentials", "%s for %s: backend received %s: %q with credential stripping enabled", kind, c.id, k, vs)
						}
					}
				}
				if s.WS {
					w.Probe("websocket_handshake_seen")
				}
			}
			if len(c.forgedUser) > 0 && forward {
				w.Probe("forged_user_id_with_forwarding")
			}
			if c.connNamed && forward {
				w.Probe("user_id_named_hop_by_hop_by_client")
			}
			if c.upgrade && c.connNamed && forward {
				w.Probe("upgrade_request_naming_the_user_id")
			}
			if c.user == "" && len(c.forgedUser) > 0 && forward {
				w.Probe("empty_identity_with_forged_header")
			}
			if strings.ContainsAny(c.user, "+%") && forward {
				w.Probe("identity_with_escapes")
			}
			if len(c.auth) > 0 && strip {
				w.Probe("authorization_with_stripping")
			}
		}
	})
}
