package harness

import (
	"bufio"
	"fmt"
	"io"
	"net"
	"os"
	"strconv"
	"strings"
	"sync"

	"verif/sim"
)

// A small independent HTTP/1.1 wire parser used by raw scripted peers, so that
// what the oracles compare is what was on the wire, not what net/http made of it.

type hfield struct{ Name, Value string }

type wireMsg struct {
	StartLine string // request line or status line
	Fields    []hfield
	Body      []byte
	Chunked   bool
	Trailers  []hfield
	Err       string
}

func (m *wireMsg) values(name string) []string {
	var out []string
	for _, f := range m.Fields {
		if strings.EqualFold(f.Name, name) {
			out = append(out, f.Value)
		}
	}
	return out
}

func readLine(br *bufio.Reader) (string, error) {
	s, err := br.ReadString('\n')
	if err != nil {
		return s, err
	}
	return strings.TrimRight(s, "\r\n"), nil
}

func readFields(br *bufio.Reader) ([]hfield, error) {
	var out []hfield
	for {
		line, err := readLine(br)
		if err != nil {
			return out, err
		}
		if line == "" {
			return out, nil
		}
		i := strings.IndexByte(line, ':')
		if i < 0 {
			return out, fmt.Errorf("malformed field line %q", line)
		}
		out = append(out, hfield{line[:i], strings.Trim(line[i+1:], " \t")})
	}
}

// readWireMessage reads one message. bodyless says the message cannot have a body
// regardless of its framing fields (responses to HEAD, 1xx/204/304).
func readWireMessage(br *bufio.Reader, isResponse, bodyless bool) (*wireMsg, error) {
	m := &wireMsg{}
	line, err := readLine(br)
	if err != nil {
		return nil, err
	}
	m.StartLine = line
	m.Fields, err = readFields(br)
	if err != nil {
		return m, err
	}
	if bodyless {
		return m, nil
	}
	te := strings.ToLower(strings.Join(m.values("Transfer-Encoding"), ","))
	if strings.Contains(te, "chunked") {
		m.Chunked = true
		for {
			sz, err := readLine(br)
			if err != nil {
				return m, err
			}
			if i := strings.IndexByte(sz, ';'); i >= 0 {
				sz = sz[:i]
			}
			n, err := strconv.ParseUint(strings.TrimSpace(sz), 16, 31)
			if err != nil {
				return m, fmt.Errorf("bad chunk size %q", sz)
			}
			if n == 0 {
				break
			}
			buf := make([]byte, n)
			if _, err := io.ReadFull(br, buf); err != nil {
				m.Body = append(m.Body, buf...)
				return m, err
			}
			m.Body = append(m.Body, buf...)
			if l, err := readLine(br); err != nil || l != "" {
				return m, fmt.Errorf("missing CRLF after chunk")
			}
		}
		m.Trailers, err = readFields(br)
		return m, err
	}
	if cl := m.values("Content-Length"); len(cl) > 0 {
		n, err := strconv.Atoi(cl[0])
		if err != nil || n < 0 {
			return m, fmt.Errorf("bad content-length %q", cl[0])
		}
		m.Body = make([]byte, n)
		if _, err := io.ReadFull(br, m.Body); err != nil {
			return m, err
		}
		return m, nil
	}
	if isResponse {
		// delimited by connection close
		m.Body, err = io.ReadAll(br)
		return m, err
	}
	return m, nil
}

// rawBackend accepts connections on agenthost:8080 and hands each parsed
// request to a responder that writes exact wire bytes.
type rawBackend struct {
	mu   sync.Mutex
	Reqs []*wireMsg
	// Respond writes the response for req on c; return false to close the connection.
	Respond func(c net.Conn, req *wireMsg, n int) bool
}

func startRawBackend(w *World, rb *rawBackend) {
	w.K.Spawn("agenthost", func() {
		l, err := sim.Listen("tcp", ":8080")
		if err != nil {
			panic(err)
		}
		for {
			c, err := l.Accept()
			if err != nil {
				return
			}
			go func() {
				defer c.Close()
				var rdr io.Reader = c
				if envOn("VERIF_LOG") {
					rdr = io.TeeReader(c, &dbgWriter{})
				}
				br := bufio.NewReader(rdr)
				for {
					req, err := readWireMessage(br, false, false)
					if req == nil {
						return
					}
					if err != nil {
						req.Err = err.Error()
					}
					rb.mu.Lock()
					n := len(rb.Reqs)
					rb.Reqs = append(rb.Reqs, req)
					rb.mu.Unlock()
					if err != nil {
						return
					}
					if rb.Respond == nil {
						if strings.HasPrefix(req.StartLine, "HEAD ") {
							fmt.Fprintf(c, "HTTP/1.1 200 OK\r\nContent-Length: 2\r\n\r\n")
						} else {
							fmt.Fprintf(c, "HTTP/1.1 200 OK\r\nContent-Length: 2\r\n\r\nok")
						}
						continue
					}
					if !rb.Respond(c, req, n) {
						return
					}
				}
			}()
		}
	})
}

var hopByHop = map[string]bool{
	"connection": true, "keep-alive": true, "proxy-authenticate": true, "proxy-authorization": true,
	"te": true, "trailer": true, "transfer-encoding": true, "upgrade": true,
}

// connectionNamed returns the lower-cased field names listed in Connection fields.
func connectionNamed(fields []hfield) map[string]bool {
	out := map[string]bool{}
	for _, f := range fields {
		if strings.EqualFold(f.Name, "Connection") {
			for _, t := range strings.Split(f.Value, ",") {
				if t = strings.ToLower(strings.TrimSpace(t)); t != "" {
					out[t] = true
				}
			}
		}
	}
	return out
}

// fieldLists groups values per lower-cased name, in order of appearance.
func fieldLists(fields []hfield) map[string][]string {
	out := map[string][]string{}
	for _, f := range fields {
		k := strings.ToLower(f.Name)
		out[k] = append(out[k], f.Value)
	}
	return out
}

type dbgWriter struct{}

func (dbgWriter) Write(p []byte) (int, error) {
	s := string(p)
	if len(s) > 200 {
		s = s[:100] + "..." + s[len(s)-100:]
	}
	fmt.Fprintf(os.Stderr, "BACKEND READ %d bytes at %v: %q\n", len(p), sim.K.Now(), s)
	return len(p), nil
}
