package harness

import (
	"bytes"
	"fmt"
	"github.com/gorilla/websocket"
	"golang.org/x/net/http2"
	"golang.org/x/net/http2/h2c"
	"io"
	"net"
	"net/http"
	"strings"
	"sync"
	"time"

	"verif/sim"
)

func init() {
	register("C07", worldC07)
	register("C07fp", worldC07fp)
}

// sabotageBackend misbehaves for requests whose X-Sabotage header asks for it.
//
// With h2 set the backend also speaks HTTP/2 without TLS (for an agent started
// with -force-http2). DropConns closes every connection the backend has accepted.
func startSabotageBackend(w *World, h2 bool) *countingBackend {
	cb := &countingBackend{Seen: map[string]int{}}
	var cmu sync.Mutex
	var accepted []net.Conn
	cb.DropConns = func() {
		cmu.Lock()
		cs := accepted
		accepted = nil
		cmu.Unlock()
		for _, c := range cs {
			c.Close()
		}
	}
	w.K.Spawn("agenthost", func() {
		l0, err := sim.Listen("tcp", ":8080")
		if err != nil {
			panic(err)
		}
		l := &recordingListener{Listener: l0, on: func(c net.Conn) {
			cmu.Lock()
			accepted = append(accepted, c)
			cmu.Unlock()
		}}
		wrap := func(h http.Handler) http.Handler { return h }
		if h2 {
			wrap = func(h http.Handler) http.Handler { return h2c.NewHandler(h, &http2.Server{}) }
		}
		http.Serve(l, wrap(http.HandlerFunc(func(rw http.ResponseWriter, r *http.Request) {
			tok := r.Header.Get("X-Token")
			if websocket.IsWebSocketUpgrade(r) {
				up := websocket.Upgrader{CheckOrigin: func(*http.Request) bool { return true }}
				if c, err := up.Upgrade(rw, r, nil); err == nil {
					defer c.Close()
					if strings.Contains(r.URL.Path, "ws-badframe") {
						// a frame that violates the protocol (reserved bits set, bad opcode),
						// then silence: the connection stays up
						c.UnderlyingConn().Write([]byte{0xff, 0x05, 'h', 'e', 'l', 'l', 'o'})
						time.Sleep(30 * time.Second)
						return
					}
					if strings.Contains(r.URL.Path, "ws-bye") {
						// says goodbye and hangs up at once
						c.WriteMessage(websocket.TextMessage, []byte("goodbye"))
						return
					}
					if strings.Contains(r.URL.Path, "ws-sclose") {
						// does not read for a while (client data backs up in the relay), then
						// ends the session with a close frame and keeps the connection up
						time.Sleep(2 * time.Second)
						c.WriteControl(websocket.CloseMessage, websocket.FormatCloseMessage(websocket.CloseNormalClosure, "done"), time.Now().Add(time.Second))
						time.Sleep(20 * time.Second)
						return
					}
					if strings.Contains(r.URL.Path, "ws-stall") {
						// stops reading for a while (the relay's writer blocks)
						time.Sleep(30 * time.Second)
					}
					for {
						if _, _, err := c.ReadMessage(); err != nil {
							return
						}
					}
				}
				return
			}
			io.Copy(io.Discard, r.Body)
			cb.mu.Lock()
			cb.Seen[tok]++
			cb.mu.Unlock()
			hijack := func() (*sim.Conn, bool) {
				hj, ok := rw.(http.Hijacker)
				if !ok {
					// HTTP/2: the stream is reset instead
					panic(http.ErrAbortHandler)
				}
				c, _, err := hj.Hijack()
				if err != nil {
					return nil, false
				}
				sc, ok := c.(*sim.Conn)
				return sc, ok
			}
			switch r.Header.Get("X-Sabotage") {
			case "reset-before-headers":
				w.K.Count("fault.backend_reset_before_headers")
				if c, ok := hijack(); ok {
					c.Abort()
				}
				return
			case "reset-mid-body":
				w.K.Count("fault.backend_reset_mid_body")
				if c, ok := hijack(); ok {
					fmt.Fprintf(c, "HTTP/1.1 200 OK\r\nContent-Length: 5000\r\n\r\n%s", strings.Repeat("x", 1200))
					time.Sleep(10 * time.Millisecond)
					c.Abort()
				}
				return
			case "close-mid-body":
				w.K.Count("fault.backend_close_mid_body")
				if c, ok := hijack(); ok {
					fmt.Fprintf(c, "HTTP/1.1 200 OK\r\nTransfer-Encoding: chunked\r\n\r\n5\r\nhello\r\n80\r\nshort")
					c.Close()
				}
				return
			case "garbage":
				w.K.Count("fault.backend_malformed_output")
				if c, ok := hijack(); ok {
					c.Write([]byte("\x00\x01\x02 not http at all \r\n\r\n\xff\xfe"))
					c.Close()
				}
				return
			case "bad-header":
				w.K.Count("fault.backend_malformed_output")
				if c, ok := hijack(); ok {
					c.Write([]byte("HTTP/1.1 200 OK\r\nBad Header Line Without Colon\r\nContent-Length: 2\r\n\r\nok"))
					c.Close()
				}
				return
			case "bad-chunk":
				w.K.Count("fault.backend_malformed_output")
				if c, ok := hijack(); ok {
					c.Write([]byte("HTTP/1.1 200 OK\r\nTransfer-Encoding: chunked\r\n\r\nZZZ\r\nnope\r\n0\r\n\r\n"))
					c.Close()
				}
				return
			case "hang-then-close":
				w.K.Count("fault.backend_hang_then_close")
				if c, ok := hijack(); ok {
					time.Sleep(3 * time.Second)
					c.Close()
				}
				return
			}
			lat := 0
			fmt.Sscanf(r.Header.Get("X-Lat-Ms"), "%d", &lat)
			if lat > 0 {
				time.Sleep(time.Duration(lat) * time.Millisecond)
			}
			rw.Header().Set("X-Echo-Token", tok)
			rw.Write(tokenBody(tok+"/resp", 2000))
		})))
	})
	return cb
}

type recordingListener struct {
	net.Listener
	on func(net.Conn)
}

func (l *recordingListener) Accept() (net.Conn, error) {
	c, err := l.Listener.Accept()
	if err == nil {
		l.on(c)
	}
	return c, err
}

// worldC07: healthy concurrent requests, sabotaged requests (backend failures,
// malformed backend output, malformed shim input) and a window in which the
// backend cannot be reached, through the real proxy and the real agent.
func worldC07(w *World) {
	t := w.T
	w.K.ChaosMult = []int{2, 1, 4}[t.Choice(3, "chaos")]
	w.K.LatencyMenu = [][]time.Duration{{0}, {0, time.Millisecond, 5 * time.Millisecond}}[t.Choice(2, "latprofile")]
	shim := t.Choice(2, "shim") == 1
	if w.ShimChunked = shim && t.Rare(1, 3, "chunked-shim-posts"); w.ShimChunked {
		w.Probe("shim_posts_without_content_length")
	}
	nHealthy := t.Range(2, 8, "healthy")
	nBad := t.Range(1, 5, "sabotaged")
	kinds := []string{"reset-before-headers", "reset-mid-body", "close-mid-body", "garbage", "bad-header", "bad-chunk", "hang-then-close"}
	if shim {
		kinds = append(kinds, "shim-garbage-open", "shim-garbage-data", "shim-garbage-poll", "shim-unknown-close", "shim-odd-blob", "shim-odd-blob", "shim-data-close-race", "shim-data-close-race", "shim-data-close-race", "shim-data-close-race", "shim-hangup-before-poll", "shim-bad-frame", "shim-backend-closes-under-load")
	}
	type creq struct {
		tok    string
		sab    string
		at     time.Duration
		lat    int
		status int
		err    string
		bodyOK bool
		done   bool
	}
	var reqs []*creq
	for i := 0; i < nHealthy; i++ {
		reqs = append(reqs, &creq{tok: fmt.Sprintf("h%02d", i), at: []time.Duration{0, 0, time.Millisecond, 20 * time.Millisecond, time.Second}[t.Choice(5, "at")], lat: []int{0, 5, 300}[t.Choice(3, "lat")]})
	}
	for i := 0; i < nBad; i++ {
		reqs = append(reqs, &creq{tok: fmt.Sprintf("s%02d", i), sab: kinds[t.Choice(len(kinds), "sabkind")], at: []time.Duration{0, 0, time.Millisecond, 20 * time.Millisecond, time.Second}[t.Choice(5, "at")]})
	}
	unreachable := t.Rare(1, 2, "unreachable")
	startProxy(w)
	// now and then the backend speaks HTTP/2 (agent flags -force-http2 -debug)
	h2 := t.Rare(1, 4, "h2backend")
	cb := startSabotageBackend(w, h2)
	var args []string
	if shim {
		args = append(args, "-shim-websockets", "-shim-path=shim")
	}
	if h2 {
		args = append(args, "-force-http2", "-debug")
	}
	startAgent(w, args...)
	var wg sync.WaitGroup
	do := func(r *creq) {
		defer wg.Done()
		if r.at > 0 {
			time.Sleep(r.at)
		}
		cl := w.Client()
		cl.Timeout = 5 * time.Minute
		var req *http.Request
		switch r.sab {
		case "shim-garbage-open":
			req, _ = http.NewRequest("POST", "http://proxy:80/shim/open", strings.NewReader("%zz\x00://"))
		case "shim-garbage-data":
			req, _ = http.NewRequest("POST", "http://proxy:80/shim/data", strings.NewReader(`[{"id": 7, "msg": {"a":`))
		case "shim-garbage-poll":
			req, _ = http.NewRequest("POST", "http://proxy:80/shim/poll", bytes.NewReader([]byte{0xff, 0xfe, 0x00}))
		case "shim-odd-blob":
			// a live session, then well-formed JSON whose message has an unexpected type
			sc := newShimClient(w, 1)
			st, rep, _, err := sc.open("ws://example.test/ws-" + r.tok)
			sid := "1"
			if err == nil && st == 200 && rep != nil {
				sid = rep.ID
			}
			odd := []string{`[123]`, `[null]`, `[{"a":1}]`, `[["x"]]`, `17`, `null`, `{"k":"v"}`, `["a","b"]`, `[]`, `[true]`, `[1.5]`}
			// one odd message per post (a rejected message ends its post), several posts
			k0 := len(r.tok+sid) + int(r.at/time.Millisecond)
			for j := 0; j < 3; j++ {
				b := `[{"id":"` + sid + `","msg":` + odd[(k0+j*4)%len(odd)] + `}]`
				sc.call("data", []byte(b))
			}
			body := `[{"id":"` + sid + `","msg":` + odd[(k0+1)%len(odd)] + `}]`
			req, _ = http.NewRequest("POST", "http://proxy:80/shim/data", strings.NewReader(body))
			w.K.Count("fault.shim_odd_message")
		case "shim-data-close-race":
			// a live session (whose backend may have stopped reading), then data posts and
			// the close of that session in flight together
			sc := newShimClient(w, 1)
			path := []string{"ws-", "ws-stall-"}[(len(r.tok)+int(r.at/time.Millisecond))%2]
			st, rep, _, err := sc.open("ws://example.test/" + path + r.tok)
			sid := "1"
			if err == nil && st == 200 && rep != nil {
				sid = rep.ID
			}
			big := wsMsg{Data: bytes.Repeat([]byte("m"), 300000)}
			var rg sync.WaitGroup
			for j := 0; j < 4; j++ {
				rg.Add(1)
				go func() {
					defer rg.Done()
					sc.data(sid, 1, []wsMsg{big, {Data: []byte("small")}})
				}()
			}
			rg.Add(1)
			go func() {
				defer rg.Done()
				sc.close(sid)
			}()
			rg.Wait()
			w.K.Count("fault.shim_data_racing_close")
			req, _ = http.NewRequest("POST", "http://proxy:80/shim/close", strings.NewReader(`{"id":"`+sid+`"}`))
		case "shim-backend-closes-under-load":
			// the backend ends the session from its side while client data is backed up
			sc := newShimClient(w, 1)
			st, rep, _, err := sc.open("ws://example.test/ws-sclose-" + r.tok)
			sid := "1"
			if err == nil && st == 200 && rep != nil {
				sid = rep.ID
			}
			big := wsMsg{Data: bytes.Repeat([]byte("m"), 300000)}
			var rg sync.WaitGroup
			for j := 0; j < 3; j++ {
				rg.Add(1)
				go func() {
					defer rg.Done()
					sc.data(sid, 1, []wsMsg{big, big})
				}()
			}
			rg.Wait()
			w.K.Count("fault.shim_backend_closes_while_data_backed_up")
			req, _ = http.NewRequest("POST", "http://proxy:80/shim/poll", strings.NewReader(`{"id":"`+sid+`"}`))
		case "shim-bad-frame":
			// the backend sends a frame that is not valid websocket; polls and data follow
			sc := newShimClient(w, 1)
			st, rep, _, err := sc.open("ws://example.test/ws-badframe-" + r.tok)
			sid := "1"
			if err == nil && st == 200 && rep != nil {
				sid = rep.ID
			}
			time.Sleep(100 * time.Millisecond)
			sc.poll(sid, 1)
			sc.data(sid, 1, []wsMsg{{Data: []byte("after the bad frame")}})
			w.K.Count("fault.shim_backend_sends_invalid_frame")
			req, _ = http.NewRequest("POST", "http://proxy:80/shim/poll", strings.NewReader(`{"id":"`+sid+`"}`))
		case "shim-hangup-before-poll":
			// the backend sends a message and hangs up; the poll only comes afterwards
			sc := newShimClient(w, 1)
			st, rep, _, err := sc.open("ws://example.test/ws-bye-" + r.tok)
			sid := "1"
			if err == nil && st == 200 && rep != nil {
				sid = rep.ID
			}
			time.Sleep(300 * time.Millisecond)
			sc.poll(sid, 1)
			w.K.Count("fault.shim_backend_hangup_before_poll")
			req, _ = http.NewRequest("POST", "http://proxy:80/shim/poll", strings.NewReader(`{"id":"`+sid+`"}`))
		case "shim-unknown-close":
			req, _ = http.NewRequest("POST", "http://proxy:80/shim/close", strings.NewReader(`{"id":"424242"}`))
		default:
			req, _ = http.NewRequest("GET", "http://proxy:80/p/"+r.tok, nil)
		}
		req.Header.Set("X-Token", r.tok)
		req.Header.Set("X-Lat-Ms", fmt.Sprint(r.lat))
		if r.sab != "" && !strings.HasPrefix(r.sab, "shim-") {
			req.Header.Set("X-Sabotage", r.sab)
		}
		resp, err := cl.Do(req)
		if err != nil {
			r.err = err.Error()
			r.done = true
			return
		}
		b, err := io.ReadAll(resp.Body)
		resp.Body.Close()
		if err != nil {
			r.err = "body: " + err.Error()
		}
		r.status = resp.StatusCode
		r.bodyOK = bytes.Equal(b, tokenBody(r.tok+"/resp", 2000)) && resp.Header.Get("X-Echo-Token") == r.tok
		r.done = true
	}
	var unreach, probe *creq
	w.K.Spawn("clients", func() {
		for _, r := range reqs {
			wg.Add(1)
			go do(r)
		}
		wg.Wait()
		if unreachable {
			// a window in which the backend cannot be reached at all
			f := &sim.NetFault{ToAddr: "agenthost:8080", ConnOrd: -1, Kind: sim.FaultRefuse}
			w.K.Faults = append(w.K.Faults, f)
			// idle connections to the backend must not mask the outage
			http.DefaultTransport.(*http.Transport).CloseIdleConnections()
			cb.DropConns()
			if h2 {
				time.Sleep(50 * time.Millisecond)
				w.Probe("http2_backend_unreachable")
			}
			unreach = &creq{tok: "unreach"}
			wg.Add(1)
			do(unreach)
			f.Kind = 0 // heal
			w.K.Count("fault.backend_unreachable_window")
		}
		// after the last fault (and the longest back-off) things work normally
		time.Sleep(5 * time.Second)
		probe = &creq{tok: "probe"}
		wg.Add(1)
		do(probe)
		w.K.Stop()
	})
	w.K.Horizon = 30 * time.Minute
	var desc []string
	for _, r := range reqs {
		if r.sab != "" {
			desc = append(desc, r.sab)
		}
	}
	w.Sample = map[string]interface{}{"healthy": nHealthy, "sabotaged": desc, "shim": shim, "unreachable_window": unreachable, "http2_backend": h2}
	w.OnCheck(func() {
		for _, e := range w.K.Exits {
			if e.Node == "agenthost" {
				w.Violation("crash", "the agent terminated | %s", e.Msg)
			}
		}
		for _, r := range reqs {
			if r.sab != "" {
				if !r.done {
					w.Violation("victim-unanswered", "a request hit by a confined failure never got any answer | %s (%s)", r.tok, r.sab)
				}
				continue
			}
			if !r.done || r.err != "" || r.status != 200 || !r.bodyOK {
				w.Violation("neighbour", "a healthy request in flight next to a failing one was disturbed | %s: done=%v status=%d err=%q bodyOK=%v (failing neighbours: %v)", r.tok, r.done, r.status, r.err, r.bodyOK, desc)
			}
		}
		if unreach != nil {
			if !unreach.done || unreach.status != 502 {
				w.Violation("unreachable-502", "with the backend unreachable the client did not receive a 502 | done=%v status=%d err=%q", unreach.done, unreach.status, unreach.err)
			}
			w.Probe("backend_unreachable_502")
		}
		if probe == nil || !probe.done || probe.status != 200 || !probe.bodyOK {
			w.Violation("afterwards", "a request issued after the failures was not served normally | %+v", probe)
		}
		_ = cb
		if nBad > 0 && nHealthy > 0 {
			w.Probe("failures_among_healthy_requests")
		}
		if shim {
			w.Probe("shim_enabled")
		}
	})
}

// worldC07fp: the proxy side misbehaves for chosen request IDs (fake proxy):
// garbled or failing pending lists, fetches and uploads.
func worldC07fp(w *World) {
	t := w.T
	w.K.ChaosMult = []int{2, 1, 4}[t.Choice(3, "chaos")]
	w.K.LatencyMenu = [][]time.Duration{{0}, {0, time.Millisecond, 5 * time.Millisecond}}[t.Choice(2, "latprofile")]
	nHealthy := t.Range(2, 8, "healthy")
	nBad := t.Range(1, 5, "sabotaged")
	kinds := []string{"fetch-404", "fetch-5xx", "fetch-truncated", "fetch-garbage", "fetch-no-start-time", "fetch-bad-start-time", "fetch-reset", "upload-5xx", "upload-reset", "upload-404", "upload-early-400", "upload-early-503"}
	fp := NewFakeProxy(w)
	var healthy, bad []string
	sab := map[string]string{}
	for i := 0; i < nHealthy; i++ {
		id := fmt.Sprintf("h%02d", i)
		healthy = append(healthy, id)
		fp.AddRequest(id, serialiseRequest("GET", "/r/"+id, "example.test", http.Header{"X-Token": {id}}, nil), "")
	}
	for i := 0; i < nBad; i++ {
		id := fmt.Sprintf("s%02d", i)
		bad = append(bad, id)
		sab[id] = kinds[t.Choice(len(kinds), "sabkind")]
		fp.AddRequest(id, serialiseRequest("GET", "/r/"+id, "example.test", http.Header{"X-Token": {id}}, nil), "")
		if sab[id] == "fetch-no-start-time" {
			fp.Reqs[id].NoStart = true
		}
	}
	fp.AddRequest("probe", serialiseRequest("GET", "/r/probe", "example.test", http.Header{"X-Token": {"probe"}}, nil), "")
	// list script: healthy and sabotaged IDs mixed; list-level faults name only sabotaged IDs
	type rep struct {
		kind string
		ids  []string
	}
	var script []rep
	all := append(append([]string{}, healthy...), bad...)
	// shuffle by tape
	for i := len(all) - 1; i > 0; i-- {
		j := t.Choice(i+1, "shuffle")
		all[i], all[j] = all[j], all[i]
	}
	for i := 0; i < len(all); {
		k := t.Range(1, 4, "perreply")
		if i+k > len(all) {
			k = len(all) - i
		}
		if t.Rare(1, 4, "listfault") {
			script = append(script, rep{kind: []string{"5xx", "garbled", "html", "huge"}[t.Choice(4, "listfaultkind")]})
		}
		script = append(script, rep{kind: "ok", ids: all[i : i+k]})
		i += k
	}
	script = append(script, rep{kind: "garbled"}, rep{kind: "5xx"})
	probeListed := false
	fp.OnList = func(n int, r *http.Request) (int, []byte) {
		if n < len(script) {
			s := script[n]
			switch s.kind {
			case "5xx":
				w.K.Count("fault.list_5xx")
				return 503, []byte("injected")
			case "garbled":
				w.K.Count("fault.list_garbled")
				return 200, []byte(`["s00", 17, {"x":`)
			case "html":
				w.K.Count("fault.list_garbled")
				return 200, []byte("<html>login page</html>")
			case "huge":
				w.K.Count("fault.list_garbled")
				return 200, bytes.Repeat([]byte("A"), 1200000)
			}
			return 200, jsonList(s.ids)
		}
		if !probeListed {
			// after the last fault plus the longest back-off
			time.Sleep(8 * time.Second)
			probeListed = true
			return 200, jsonList([]string{"probe"})
		}
		return 0, nil
	}
	fp.OnFetch = func(id string, attempt int, rw http.ResponseWriter) bool {
		switch sab[id] {
		case "fetch-404":
			w.K.Count("fault.fetch_rejected")
			http.NotFound(rw, nil)
			return true
		case "fetch-5xx":
			w.K.Count("fault.fetch_rejected")
			http.Error(rw, "injected", 500)
			return true
		case "fetch-truncated":
			w.K.Count("fault.fetch_garbled")
			rw.Header().Set("X-Inverting-Proxy-Request-Start-Time", time.Now().Format(time.RFC3339Nano))
			rw.Write([]byte("GET /r/x HTTP/1.1\r\nHost: exam"))
			return true
		case "fetch-garbage":
			w.K.Count("fault.fetch_garbled")
			rw.Header().Set("X-Inverting-Proxy-Request-Start-Time", time.Now().Format(time.RFC3339Nano))
			rw.Write([]byte("\x00\x01\x02\x03 complete nonsense\r\n\r\n"))
			return true
		case "fetch-bad-start-time":
			w.K.Count("fault.fetch_garbled")
			rw.Header().Set("X-Inverting-Proxy-Request-Start-Time", "yesterday at noon")
			rw.Write(fp.Reqs[id].Raw)
			return true
		case "fetch-reset":
			w.K.Count("fault.fetch_reset")
			if hj, ok := rw.(http.Hijacker); ok {
				if c, _, err := hj.Hijack(); err == nil {
					c.Write([]byte("HTTP/1.1 200 OK\r\nContent-Length: 500\r\n\r\nGET /r/"))
					c.(*sim.Conn).Abort()
				}
			}
			return true
		}
		return false
	}
	fp.OnUpload = func(id string, attempt int, rw http.ResponseWriter, r *http.Request) bool {
		switch sab[id] {
		case "upload-5xx":
			w.K.Count("fault.upload_rejected")
			io.Copy(io.Discard, r.Body)
			http.Error(rw, "injected", 500)
			return true
		case "upload-404":
			w.K.Count("fault.upload_rejected")
			http.NotFound(rw, r)
			return true
		case "upload-early-400", "upload-early-503":
			// the answer arrives while the response body is still being uploaded
			w.K.Count("fault.upload_rejected_early")
			if hj, ok := rw.(http.Hijacker); ok {
				if c, _, err := hj.Hijack(); err == nil {
					status := "400 Bad Request"
					if sab[id] == "upload-early-503" {
						status = "503 Service Unavailable"
					}
					c.Write([]byte("HTTP/1.1 " + status + "\r\nContent-Length: 8\r\n\r\nrejected"))
					c.SetReadDeadline(time.Now().Add(20 * time.Second))
					io.Copy(io.Discard, c)
					c.Close()
				}
			}
			return true
		case "upload-reset":
			w.K.Count("fault.upload_reset")
			if hj, ok := rw.(http.Hijacker); ok {
				if c, _, err := hj.Hijack(); err == nil {
					c.(*sim.Conn).Abort()
				}
			}
			return true
		}
		return false
	}
	fp.Start()
	cb := startCountingBackend(w)
	// sabotaged uploads hit responses that are still being streamed
	cb.Stream = func(tok string) bool { return strings.HasPrefix(tok, "s") }
	startAgent(w)
	w.K.Spawn("controller", func() {
		for i := 0; i < 3000; i++ {
			time.Sleep(100 * time.Millisecond)
			fp.mu.Lock()
			done := len(fp.Uploads["probe"]) > 0 && fp.Uploads["probe"][0].Status != 0
			fp.mu.Unlock()
			if done {
				break
			}
		}
		time.Sleep(time.Second)
		w.K.Stop()
	})
	w.K.Horizon = 30 * time.Minute
	var desc []string
	for _, id := range bad {
		desc = append(desc, sab[id])
	}
	w.Sample = map[string]interface{}{"healthy": nHealthy, "sabotaged": desc, "list_replies": len(script)}
	w.OnCheck(func() {
		for _, e := range w.K.Exits {
			if e.Node == "agenthost" {
				w.Violation("crash", "the agent terminated | %s", e.Msg)
			}
		}
		check := func(id, what string) {
			ups := fp.Uploads[id]
			ok := false
			for _, u := range ups {
				if u.Complete && u.ParseErr == "" && u.Resp != nil && u.Resp.StatusCode == 200 && string(u.RespBody) == "resp:"+id {
					ok = true
				}
			}
			if cb.Seen[id] < 1 || !ok {
				w.Violation(what, "a request not touched by any injected failure was not served | %s: backend saw it %d times, uploads %d, complete+correct=%v (failures in this run: %v)", id, cb.Seen[id], len(ups), ok, desc)
			}
		}
		for _, id := range healthy {
			check(id, "neighbour")
		}
		check("probe", "afterwards")
		w.Probe("proxy_side_failures_among_healthy_requests")
	})
}
