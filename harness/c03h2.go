package harness

import (
	"bufio"
	"fmt"
	"net/http"
	"strings"
	"sync"
	"time"

	"golang.org/x/net/http2"
	"golang.org/x/net/http2/h2c"

	"verif/sim"
)

func init() { register("C03h2", worldC03h2) }

// worldC03h2: the same response oracle as C03 with an HTTP/2 cleartext backend
// (agent flag -force-http2); the backend is a real http.Server behind h2c, so
// responses are produced through the handler API instead of raw bytes.
func worldC03h2(w *World) {
	t := w.T
	w.K.ChaosMult = []int{2, 1, 4, 16}[t.Choice(4, "chaos")]
	w.K.LatencyMenu = [][]time.Duration{{0}, {0, time.Millisecond, 10 * time.Millisecond}}[t.Choice(2, "latprofile")]
	w.K.SegmentPct = []int{0, 20, 70}[t.Choice(3, "segpct")]
	n := t.Range(1, 4, "requests")
	resps := make([]*genResp, n)
	for i := range resps {
		g := genResponse(t, w.Tier == "thorough")
		g.Interim = nil // net/http's HTTP/2 server does not relay arbitrary 1xx
		if g.Framing == "cl" && !g.bodyless() && len(g.Trailers) == 0 && t.Rare(1, 2, "trailers-with-length") {
			// HTTP/2 can carry trailers on a response with a declared length
			g.Declared = []string{"X-Checksum"}
			g.Trailers = []hfield{{"X-Checksum", "sum-1"}, {"X-Undeclared", "u2"}}
		}
		if g.Framing == "close" {
			g.Framing = "chunked"
		}
		// hop-by-hop fields are not valid in HTTP/2 responses
		var fs []hfield
		for _, f := range g.Fields {
			if hopByHop[strings.ToLower(f.Name)] || strings.EqualFold(f.Name, "X-Hop-Resp") {
				continue
			}
			fs = append(fs, f)
		}
		g.Fields = fs
		resps[i] = g
	}
	startProxy(w)
	w.K.Spawn("agenthost", func() {
		l, err := sim.Listen("tcp", ":8080")
		if err != nil {
			panic(err)
		}
		h := http.HandlerFunc(func(rw http.ResponseWriter, r *http.Request) {
			idx := -1
			fmt.Sscanf(r.URL.Path, "/m%03d", &idx)
			if idx < 0 || idx >= n {
				http.NotFound(rw, r)
				return
			}
			if r.ProtoMajor != 2 {
				w.Violation("h2", "the backend was contacted with %s although -force-http2 is set", r.Proto)
			}
			w.Probe("http2_backend")
			g := resps[idx]
			for _, f := range g.Fields {
				rw.Header().Add(f.Name, f.Value)
			}
			if len(g.Declared) > 0 {
				rw.Header().Set("Trailer", strings.Join(g.Declared, ", "))
			}
			if g.Framing == "cl" && !g.bodyless() {
				rw.Header().Set("Content-Length", fmt.Sprint(len(g.Body)))
			}
			rw.WriteHeader(g.Status)
			if g.bodyless() {
				return
			}
			off := 0
			for _, p := range g.Pieces {
				if off >= len(g.Body) {
					break
				}
				if off+p > len(g.Body) {
					p = len(g.Body) - off
				}
				rw.Write(g.Body[off : off+p])
				rw.(http.Flusher).Flush()
				off += p
				if g.Pause > 0 {
					time.Sleep(g.Pause)
				}
			}
			if off < len(g.Body) {
				rw.Write(g.Body[off:])
			}
			declared := map[string]bool{}
			for _, d := range g.Declared {
				declared[strings.ToLower(d)] = true
			}
			for _, f := range g.Trailers {
				if declared[strings.ToLower(f.Name)] {
					rw.Header().Add(f.Name, f.Value)
				} else {
					rw.Header().Add(http.TrailerPrefix+f.Name, f.Value)
				}
			}
		})
		http.Serve(l, h2c.NewHandler(h, &http2.Server{}))
	})
	startAgent(w, "-force-http2")
	var wg sync.WaitGroup
	results := make([]c03Result, n)
	for i, g := range resps {
		i, g := i, g
		wg.Add(1)
		w.K.Spawn(fmt.Sprintf("client%d", i), func() {
			defer wg.Done()
			c, err := sim.Dial("tcp", "proxy:80")
			if err != nil {
				results[i].err = "dial: " + err.Error()
				return
			}
			defer c.Close()
			method := "GET"
			if g.Head {
				method = "HEAD"
			}
			fmt.Fprintf(c, "%s /m%03d HTTP/1.1\r\nHost: example.test\r\nAccept-Encoding: identity\r\nConnection: close\r\n\r\n", method, i)
			m, err := readWireMessage(bufio.NewReader(c), true, g.bodyless())
			results[i].msg = m
			if err != nil {
				results[i].err = err.Error()
			}
		})
	}
	w.K.Spawn("controller", func() {
		wg.Wait()
		w.K.Stop()
	})
	w.K.MaxSteps = 3000000
	g0 := resps[0]
	w.Sample = map[string]interface{}{"backend": "h2c", "requests": n, "first": fmt.Sprintf("status=%d fields=%d framing=%s body=%d pieces=%v declared=%v trailers=%v head=%v", g0.Status, len(g0.Fields), g0.Framing, len(g0.Body), g0.Pieces, g0.Declared, g0.Trailers, g0.Head)}
	w.OnCheck(func() { checkC03(w, resps, results) })
}
