package harness

import (
	"encoding/json"
	"fmt"
	"os"
	"runtime/debug"
	"runtime/pprof"
	"strconv"
	"strings"
	"testing"
	"testing/synctest"
	"time"

	"verif/sim"
)

// TestSim runs exactly one simulated run: world VERIF_WORLD, seed VERIF_SEED
// (or the tape in VERIF_TAPE), prints one RESULT line and exits from inside
// the bubble (no teardown of the simulated world is needed).
func TestSim(t *testing.T) {
	world := os.Getenv("VERIF_WORLD")
	if world == "" {
		t.Skip("VERIF_WORLD not set")
	}
	debug.SetGCPercent(-1)
	seed, _ := strconv.ParseUint(strings.TrimLeft(os.Getenv("VERIF_SEED"), "0"), 10, 64)
	var replay []int32
	if p := strings.TrimSpace(os.Getenv("VERIF_TAPE")); p != "" {
		b, err := os.ReadFile(p)
		if err != nil {
			fmt.Println("RESULT", `{"outcome":"error","msg":"cannot read tape"}`)
			os.Exit(2)
		}
		var tf struct {
			Tape []int32 `json:"tape"`
		}
		if err := json.Unmarshal(b, &tf); err != nil {
			fmt.Println("RESULT", `{"outcome":"error","msg":"bad tape file"}`)
			os.Exit(2)
		}
		replay = tf.Tape
		if replay == nil {
			replay = []int32{}
		}
	}
	if os.Getenv("VERIF_CLSTACK") != "" {
		sim.DebugCloseStack = func(id int) { fmt.Fprintf(os.Stderr, "CLOSE %d\n%s\n", id, debug.Stack()) }
	}
	// Lazily initialised process state that costs a blocking system call must be
	// set up before the simulation starts: during a system call sysmon may hand
	// the only P to another thread, and the goroutine that made the call is
	// re-queued behind those that were waiting - at a moment that depends on
	// how loaded the machine is. time.Local reads /etc/localtime on first use
	// (seen in world C19: first local-time formatting in the middle of a step).
	_, _ = time.Now().Zone()
	synctest.Test(t, func(t *testing.T) {
		res := runWorld(world, seed, replay)
		b, _ := json.Marshal(res)
		fmt.Println("RESULT", string(b))
		os.Stdout.Sync()
		if os.Getenv("VERIF_GDUMP") != "" {
			pprof.Lookup("goroutine").WriteTo(os.Stderr, 2)
		}
		if p := os.Getenv("VERIF_MEMPROF"); p != "" {
			if f, err := os.Create(p); err == nil {
				pprof.Lookup("allocs").WriteTo(f, 0)
				f.Close()
			}
		}
		os.Exit(0)
	})
}
