package harness

import (
	"encoding/json"
	"fmt"
	"net/http"
	"reflect"
	"strings"
	"sync"
	"time"

	"verif/sim"
)

func init() { register("C11", worldC11) }

func genWSMessages(t *sim.Tape, n int, thorough, inject bool, tag string) []wsMsg {
	sizes := []int{0, 1, 5, 100, 4096, 40000}
	if thorough {
		sizes = append(sizes, 64<<10, 1<<20)
	}
	var out []wsMsg
	for i := 0; i < n; i++ {
		m := wsMsg{}
		sz := sizes[t.Choice(len(sizes), "msgsize")]
		switch t.Pick("msgkind", 4, 3, 2, 2) {
		case 0: // ASCII text with an index so that order and duplication show
			m.Data = []byte(fmt.Sprintf("%s-%04d:%s", tag, i, string(tokenBody(tag, sz))))
		case 1: // arbitrary bytes, binary
			m.Binary = true
			m.Data = append([]byte(fmt.Sprintf("%s-%04d:", tag, i)), t.Sub("bin").Bytes(sz)...)
		case 2: // text with multi-byte UTF-8, quotes, HTML-sensitive characters
			m.Data = []byte(fmt.Sprintf("%s-%04d:", tag, i) + strings.Repeat("é€𝄞<\"&>\\\n ", 1+sz/40))
		case 3: // JSON documents (the ones header injection looks at)
			switch t.Choice(7, "jsonkind") {
			case 5: // present with values that a careless check reads as absent
				m.Data = []byte(fmt.Sprintf(`{"resource":{"headers":{"X-Inject-Me":"","X-Second":null,"Existing":"keep"}},"n":%d,"tag":"%s"}`, i, tag))
			case 6: // present with values that are not strings
				m.Data = []byte(fmt.Sprintf(`{"resource":{"headers":{"X-Inject-Me":0,"X-Second":false,"Other":[]}},"n":%d,"tag":"%s"}`, i, tag))
			case 0:
				m.Data = []byte(fmt.Sprintf(`{"resource":{"headers":{"Existing":"keep","X-Inject-Me":"original"}},"n":%d,"tag":"%s"}`, i, tag))
			case 1:
				m.Data = []byte(fmt.Sprintf(`{"resource": {"headers": {}, "other": [1, 2, {"a": null}]}, "n": %d, "tag": "%s"}`, i, tag))
			case 2:
				m.Data = []byte(fmt.Sprintf(`{"resource":{"nothere":true},"n":%d,"tag":"%s"}`, i, tag))
			case 3:
				m.Data = []byte(fmt.Sprintf(`[%d, "%s", {"resource":{"headers":{}}}]`, i, tag))
			case 4:
				m.Data = []byte(fmt.Sprintf(`{"resource":{"headers":"not-an-object"},  "n":%d,"tag":"%s"}`, i, tag))
			}
			m.Binary = t.Rare(1, 5, "jsonbinary")
		}
		out = append(out, m)
	}
	return out
}

// c11Sess is one shimmed websocket session of the run.
type c11Sess struct {
	idx       int
	cmsgs     []wsMsg
	smsgs     []wsMsg
	batches   [][]wsMsg
	postPause []time.Duration
	sendPause []time.Duration
	mu        sync.Mutex
	got       []wsMsg
	problems  []string
	polls408  int
	// backendCloses: the backend closes the websocket after its last message
	// (such a session carries no client messages)
	backendCloses bool
	browser       int
	afterClose    time.Duration
}

// worldC11: one or two concurrent shimmed websocket sessions; both directions
// carry generated message sequences with tape-chosen batching and timing.
func worldC11(w *World) {
	t := w.T
	thorough := w.Tier == "thorough"
	w.K.ChaosMult = []int{2, 1, 4, 16}[t.Choice(4, "chaos")]
	w.K.LatencyMenu = [][]time.Duration{{0}, {0, time.Millisecond, 20 * time.Millisecond}}[t.Choice(2, "latprofile")]
	w.K.SegmentPct = []int{0, 20}[t.Choice(2, "segpct")]
	inject := t.Rare(1, 3, "injection")
	version := []int{1, 1, 0, -1}[t.Choice(4, "version")]
	maxN := 30
	if thorough {
		maxN = 120
	}
	// one or two browsers, each running one or two sessions one after the other,
	// so that sessions are closed and opened while others are in use
	nBrowsers := t.Pick("sessions", 3, 2) + 1
	nSess := 0
	var owner []int
	for b := 0; b < nBrowsers; b++ {
		k := t.Pick("rounds", 3, 1) + 1
		for j := 0; j < k; j++ {
			owner = append(owner, b)
		}
		nSess += k
	}
	pauses := []time.Duration{0, 0, time.Millisecond, 100 * time.Millisecond, 21 * time.Second}
	bigPost := false
	sess := make([]*c11Sess, nSess)
	for si := range sess {
		ss := &c11Sess{idx: si, browser: owner[si]}
		nc := t.Range(0, maxN, "clientmsgs")
		ns := t.Range(0, maxN, "servermsgs")
		if t.Rare(1, 4, "backendcloses") {
			ss.backendCloses = true
			nc = 0
		}
		ss.cmsgs = genWSMessages(t, nc, thorough, inject, fmt.Sprintf("c%d", si))
		ss.smsgs = genWSMessages(t, ns, thorough, false, fmt.Sprintf("s%d", si))
		for i := 0; i < len(ss.cmsgs); {
			k := []int{1, 1, 2, 5, 11, 25}[t.Choice(6, "batch")]
			if i+k > len(ss.cmsgs) {
				k = len(ss.cmsgs) - i
			}
			ss.batches = append(ss.batches, ss.cmsgs[i:i+k])
			i += k
		}
		if !ss.backendCloses && t.Rare(1, 15, "bigpost") && w.Cfg != "nobig" {
			// one data post well above 2 MiB: a few large binary messages sent together
			var big []wsMsg
			for k := 0; k < 3; k++ {
				big = append(big, wsMsg{Binary: true, Data: append([]byte(fmt.Sprintf("c%d-big%d:", si, k)), t.Sub("bigbin").Bytes(600000)...)})
			}
			ss.cmsgs = append(ss.cmsgs, big...)
			ss.batches = append(ss.batches, ss.cmsgs[len(ss.cmsgs)-3:])
			bigPost = true
		}
		for range ss.batches {
			ss.postPause = append(ss.postPause, pauses[t.Pick("postpause", 4, 4, 2, 2, 1)])
		}
		for range ss.smsgs {
			ss.sendPause = append(ss.sendPause, pauses[t.Pick("sendpause", 6, 4, 2, 2, 1)])
		}
		// the browser's last session is followed by time for the close to reach the backend
		ss.afterClose = 2 * time.Second
		if si+1 < nSess && owner[si+1] == owner[si] && t.Rare(1, 2, "reopen-at-once") {
			ss.afterClose = 0
		}
		sess[si] = ss
	}
	startProxy(w)
	wb := startWSBackend(w)
	if t.Rare(1, 4, "stubborn") {
		wb.Stubborn = func(string) bool { return true }
		w.Probe("backend_ignores_closing_handshake")
	}
	hsDelay := []time.Duration{0, 0, 30 * time.Millisecond, time.Second}[t.Choice(4, "handshakedelay")]
	wb.rb.Delay = func(r *http.Request) time.Duration { return hsDelay }
	// a backend that reads more slowly than the client sends, behind small socket
	// buffers: accepted client messages pile up in the agent
	readPause := []time.Duration{0, 0, 0, 200 * time.Millisecond, time.Second}[t.Choice(5, "backendreadpause")]
	wb.ReadPause = func(string) time.Duration { return readPause }
	w.K.SendBuf = []int{64 << 10, 64 << 10, 4 << 10}[t.Choice(3, "sendbuf")]
	if readPause > 0 && w.K.SendBuf > 4<<10 && t.Rare(1, 2, "smallbuf-behind-slow-reader") {
		w.K.SendBuf = 4 << 10
	}
	closeAtOnce := t.Rare(1, 2, "closeatonce")
	if readPause > 0 {
		closeAtOnce = t.Rare(3, 4, "closeatonce2")
	}
	wb.OnOpen = func(s *wsSession) {
		var si int
		if _, err := fmt.Sscanf(s.Path, "/sock%d", &si); err != nil || si < 0 || si >= nSess {
			return
		}
		ss := sess[si]
		for i, m := range ss.smsgs {
			if ss.sendPause[i] > 0 {
				time.Sleep(ss.sendPause[i])
			}
			if err := s.send(m); err != nil {
				return
			}
		}
		if ss.backendCloses {
			s.closeFromBackend(ss.idx%2 == 0)
		}
	}
	// (a data post that waits behind a slowly reading backend may take minutes; the
	// agent's own client timeout towards the proxy is configured out of the way)
	args := []string{"-shim-websockets", "-shim-path=shim", "-proxy-timeout=3h"}
	if inject {
		args = append(args, "-enable-websockets-injection")
	}
	startAgent(w, args...)

	effV := version
	if effV < 0 {
		effV = 0
	}
	var all sync.WaitGroup
	runSession := func(ss *c11Sess) {
		{
			problem := func(f string, a ...interface{}) {
				ss.mu.Lock()
				ss.problems = append(ss.problems, fmt.Sprintf(f, a...))
				ss.mu.Unlock()
			}
			sc := newShimClient(w, version)
			sc.Extra = http.Header{"X-Inject-Me": {"injected-value"}, "X-Second": {"s1", "s2"}}
			st, rep, raw, err := sc.open(fmt.Sprintf("ws://example.test/sock%d?x=1&y=%%20z", ss.idx))
			if err != nil || st != 200 || rep == nil {
				problem("open failed: status %d err %v body %q", st, err, raw)
				return
			}
			if rep.V != effV {
				problem("open reply reports protocol version %d, requested %d", rep.V, version)
			}
			var wg sync.WaitGroup
			wg.Add(2)
			go func() { // the data loop: one post outstanding at a time
				defer wg.Done()
				for i, b := range ss.batches {
					if ss.postPause[i] > 0 {
						time.Sleep(ss.postPause[i])
					}
					st, err := sc.data(rep.ID, effV, b)
					if err != nil || st != 200 {
						problem("data post %d: status %d err %v", i, st, err)
						return
					}
				}
			}()
			go func() { // the poll loop: one poll outstanding at a time
				defer wg.Done()
				idle := 0
				for {
					ss.mu.Lock()
					n := len(ss.got)
					ss.mu.Unlock()
					if n >= len(ss.smsgs) && idle >= 1 {
						return
					}
					st, msgs, err := sc.poll(rep.ID, effV)
					if err != nil {
						problem("poll: %v", err)
						return
					}
					switch st {
					case 200:
						ss.mu.Lock()
						ss.got = append(ss.got, msgs...)
						over := len(ss.got) > len(ss.smsgs)+5
						ss.mu.Unlock()
						if over {
							return
						}
						idle = 0
						if len(msgs) > 10 {
							w.Probe("poll_returned_more_than_10")
						}
					case 408:
						ss.mu.Lock()
						ss.polls408++
						ss.mu.Unlock()
						idle++
						if idle > 4 {
							return
						}
					default:
						if st == 400 && ss.backendCloses {
							// the session was reported closed
							w.Probe("backend_closed_after_last_message")
							return
						}
						problem("poll: unexpected status %d", st)
						return
					}
				}
			}()
			wg.Wait()
			// the close follows the last accepted data post (at once, or a little later)
			if !closeAtOnce {
				time.Sleep(2 * time.Second)
			} else if readPause > 0 && len(ss.cmsgs) > 11 {
				w.Probe("close_behind_backlog")
			}
			if st, err := sc.close(rep.ID); err != nil || (st != 200 && !(ss.backendCloses && st == 400)) {
				problem("close: status %d err %v", st, err)
			}
			time.Sleep(ss.afterClose)
			{
				// a slow backend or a slow link (small socket buffers, latency, megabyte
				// messages) needs time to take in what was accepted before the close: wait
				// for the backend to see the end, within ten minutes
				for i := 0; i < 1200; i++ {
					done := false
					wb.mu.Lock()
					for _, x := range wb.Sessions {
						if strings.HasPrefix(x.Path, fmt.Sprintf("/sock%d?", ss.idx)) {
							x.mu.Lock()
							done = x.Closed
							x.mu.Unlock()
						}
					}
					wb.mu.Unlock()
					if done {
						break
					}
					time.Sleep(500 * time.Millisecond)
				}
			}
		}
	}
	for b := 0; b < nBrowsers; b++ {
		b := b
		all.Add(1)
		w.K.Spawn(fmt.Sprintf("browser%d", b), func() {
			defer all.Done()
			k := 0
			for _, ss := range sess {
				if ss.browser == b {
					runSession(ss)
					k++
				}
			}
			if k > 1 && nBrowsers > 1 {
				w.Probe("session_opened_after_another_closed")
			}
		})
	}
	w.K.Spawn("controller", func() {
		all.Wait()
		w.K.Stop()
	})
	w.K.Horizon = 3 * time.Hour
	w.K.MaxSteps = 3000000
	w.Sample = map[string]interface{}{"browsers": nBrowsers, "sessions": nSess, "client_msgs": len(sess[0].cmsgs), "server_msgs": len(sess[0].smsgs), "batches": len(sess[0].batches), "version": version, "injection": inject}
	w.OnCheck(func() {
		for _, e := range w.K.Exits {
			w.Violation("crash", "node %s exited: %s", e.Node, e.Msg)
		}
		bad := false
		for _, ss := range sess {
			for _, p := range ss.problems {
				w.Violation("shim-call", "a shim call of a well-behaved client failed | session %d: %s", ss.idx, p)
				bad = true
			}
		}
		if bad {
			return
		}
		if len(wb.Sessions) != nSess {
			w.Violation("session", "backend saw %d websocket connections for %d shim sessions", len(wb.Sessions), nSess)
			return
		}
		cmp := func(a, b []wsMsg, dir string) {
			for i := 0; i < len(a) && i < len(b); i++ {
				if a[i].Binary != b[i].Binary {
					w.Violation("delivery", "%s: message type changed | message %d sent %v received %v", dir, i, a[i], b[i])
					return
				}
				if a[i].Binary && effV == 0 {
					continue // payload of binary messages is only promised intact under version 1
				}
				if string(a[i].Data) != string(b[i].Data) {
					w.Violation("delivery", "%s: message payload changed, lost, duplicated or reordered | message %d sent %v received %v (%.40q vs %.40q)", dir, i, a[i], b[i], a[i].Data, b[i].Data)
					return
				}
			}
			if len(a) != len(b) {
				w.Violation("delivery", "%s: number of messages differs | sent %d received %d", dir, len(a), len(b))
			}
		}
		for _, ss := range sess {
			var s *wsSession
			for _, x := range wb.Sessions {
				if strings.HasPrefix(x.Path, fmt.Sprintf("/sock%d?", ss.idx)) {
					s = x
				}
			}
			if s == nil {
				w.Violation("session", "no backend websocket for session %d", ss.idx)
				continue
			}
			s.mu.Lock()
			closed := s.Closed
			recv := append([]wsMsg(nil), s.Recv...)
			s.mu.Unlock()
			cmp(ss.smsgs, ss.got, "server to client")
			if !inject {
				cmp(ss.cmsgs, recv, "client to server")
			} else {
				if len(ss.cmsgs) != len(recv) {
					w.Violation("delivery", "client to server: number of messages differs | sent %d received %d", len(ss.cmsgs), len(recv))
				}
				for i := 0; i < len(ss.cmsgs) && i < len(recv); i++ {
					checkInjected(w, i, ss.cmsgs[i], recv[i], effV)
				}
			}
			if !closed {
				w.Violation("close", "the backend websocket was not closed after the client closed the shim session")
			}
			if ss.polls408 > 0 {
				w.Probe("idle_poll_408")
			}
			for _, b := range ss.batches {
				if len(b) > 10 {
					w.Probe("data_post_more_than_10")
				}
			}
			if len(ss.cmsgs) > 0 && len(ss.smsgs) > 0 {
				w.Probe("both_directions")
			}
		}
		if nBrowsers > 1 {
			w.Probe("concurrent_sessions")
		}
		if bigPost {
			w.Probe("data_post_above_2_mib")
		}
	})
}

// checkInjected verifies the header-injection clause for one message.
func checkInjected(w *World, i int, sent, recv wsMsg, v int) {
	if sent.Binary != recv.Binary {
		w.Violation("delivery", "client to server: message type changed | message %d", i)
		return
	}
	var orig map[string]interface{}
	eligible := false
	if json.Unmarshal(sent.Data, &orig) == nil && orig != nil {
		if res, ok := orig["resource"].(map[string]interface{}); ok {
			_, eligible = res["headers"].(map[string]interface{})
		}
	}
	if !eligible {
		if sent.Binary && v == 0 {
			return
		}
		if string(sent.Data) != string(recv.Data) {
			w.Violation("injection", "with header injection enabled a message that is not a JSON object with resource.headers was changed | message %d sent %.60q received %.60q", i, sent.Data, recv.Data)
		}
		return
	}
	w.Probe("injection_applied")
	var got map[string]interface{}
	if err := json.Unmarshal(recv.Data, &got); err != nil {
		w.Violation("injection", "an injected message is no longer valid JSON | message %d: %v", i, err)
		return
	}
	oh := orig["resource"].(map[string]interface{})["headers"].(map[string]interface{})
	gres, _ := got["resource"].(map[string]interface{})
	gh, _ := gres["headers"].(map[string]interface{})
	if gh == nil {
		w.Violation("injection", "resource.headers disappeared from an injected message | message %d", i)
		return
	}
	added := 0
	for k, v := range gh {
		if ov, ok := oh[k]; ok {
			if !reflect.DeepEqual(ov, v) {
				w.Violation("injection", "injection overwrote a header that was already present | message %d key %q original %v now %v", i, k, ov, v)
			}
			continue
		}
		if _, ok := v.(string); !ok {
			w.Violation("injection", "injection added a non-string value | message %d key %q", i, k)
		}
		added++
		delete(gh, k)
	}
	if _, had := oh["X-Inject-Me"]; !had {
		if added == 0 {
			w.Violation("injection", "no request header was added to resource.headers | message %d", i)
		}
	}
	// with the added keys removed the document must equal the original as a JSON value
	if !reflect.DeepEqual(orig, got) {
		w.Violation("injection", "injection changed more than resource.headers | message %d sent %.80q received %.80q", i, sent.Data, recv.Data)
	}
}
