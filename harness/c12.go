package harness

import (
	"encoding/json"
	"fmt"
	"net/http"
	"sort"
	"strings"
	"sync"
	"time"
)

func init() { register("C12", worldC12) }

type shimCall struct {
	Kind    string // open data poll close bsend bclose
	Sess    int    // index of the session the call refers to (-1: unknown id)
	Arg     string // variant: valid, unknown, malformed, empty
	At      time.Duration
	Invoke  uint64
	Return  uint64
	RetAt   time.Duration
	InvAt   time.Duration // absolute simulated time of the invocation
	Status  int
	Err     string
	Done    bool
	Started bool
	Msgs    []wsMsg
	Idx     int
}

// worldC12: concurrent and out-of-order shim calls with valid, unknown,
// closed and malformed arguments.
func worldC12(w *World) {
	t := w.T
	w.K.ChaosMult = []int{1, 2, 4}[t.Choice(3, "chaos")]
	w.K.LatencyMenu = [][]time.Duration{{0}, {0, time.Millisecond}}[t.Choice(2, "latprofile")]
	nSess := t.Range(1, 2, "sessions")
	backendCloses := t.Rare(1, 3, "backendcloses")
	if w.ShimChunked = t.Rare(1, 4, "chunked-shim-posts"); w.ShimChunked {
		w.Probe("shim_posts_without_content_length")
	}
	startProxy(w)
	wb := startWSBackend(w)
	// the backend may ignore the closing handshake, and may be slow to accept one
	if t.Rare(1, 3, "stubborn") {
		wb.Stubborn = func(string) bool { return true }
		w.Probe("backend_ignores_closing_handshake")
	}
	// session 0's backend may stop reading altogether while a large message and more
	// than a buffer's worth of small ones are posted to it; calls on that session may
	// then block for as long as the backend stays stalled, but calls on the other
	// session must be answered as always
	stalled := nSess == 2 && !backendCloses && t.Rare(1, 3, "stalled")
	if stalled {
		wb.Stalled = func(uri string) bool { return uri == "/s0" }
		w.K.SendBuf = 4 << 10
		w.Probe("stalled_backend_on_other_session")
	}
	hsDelay := []time.Duration{0, 0, 30 * time.Millisecond, time.Second}[t.Choice(4, "handshakedelay")]
	// now and then an open is aimed at a path whose handshake the backend accepts
	// (TCP) but does not answer for ten minutes: that call must be answered too
	muteOpen := t.Rare(1, 6, "muteopen")
	wb.rb.Delay = func(r *http.Request) time.Duration {
		if strings.HasPrefix(r.URL.Path, "/mute") {
			return 10 * time.Minute
		}
		return hsDelay
	}
	startAgent(w, "-shim-websockets", "-shim-path=shim")

	type sess struct {
		id        string
		opened    bool
		bsent     []wsMsg
		bclosedAt time.Duration
	}
	sessions := make([]*sess, nSess)
	for i := range sessions {
		sessions[i] = &sess{}
	}
	// generate the calls
	nCalls := t.Range(2, 10, "calls")
	var calls []*shimCall
	for i := 0; i < nCalls; i++ {
		c := &shimCall{Idx: i}
		c.Kind = []string{"data", "close", "poll", "data", "close"}[t.Choice(5, "kind")]
		c.Sess = t.Choice(nSess, "sess")
		c.Arg = []string{"valid", "valid", "valid", "unknown", "malformed", "empty", "oddmsg", "mixedbatch"}[t.Choice(8, "arg")]
		if (c.Arg == "oddmsg" || c.Arg == "mixedbatch") && c.Kind != "data" {
			c.Arg = "valid"
		}
		// many calls at the same instant, some later
		c.At = []time.Duration{0, 0, 0, time.Millisecond, 50 * time.Millisecond, 2 * time.Second, 25 * time.Second}[t.Choice(7, "at")]
		calls = append(calls, c)
	}
	var muteCall *shimCall
	if muteOpen {
		muteCall = &shimCall{Idx: len(calls), Kind: "open", Sess: -2, Arg: "mute"}
		calls = append(calls, muteCall)
		w.Probe("open_against_backend_that_never_answers_the_handshake")
	}
	nb := 0
	if backendCloses {
		nb = t.Range(0, 14, "bmsgs")
		if t.Rare(1, 3, "nomsgs") {
			nb = 0 // the backend closes without having sent anything
		}
	}
	bcloseAt := []time.Duration{0, time.Millisecond, 60 * time.Millisecond, 3 * time.Second}[t.Choice(4, "bcloseat")]
	var mu sync.Mutex
	wb.OnOpen = func(s *wsSession) {
		if !backendCloses {
			return
		}
		// session 0 only: send nb messages, then close from the backend side
		if s.Path != "/s0" {
			return
		}
		time.Sleep(bcloseAt)
		for i := 0; i < nb; i++ {
			m := wsMsg{Data: []byte(fmt.Sprintf("b-%03d", i))}
			if s.send(m) != nil {
				break
			}
			mu.Lock()
			sessions[0].bsent = append(sessions[0].bsent, m)
			mu.Unlock()
		}
		s.conn.Close()
		mu.Lock()
		sessions[0].bclosedAt = w.K.Now()
		mu.Unlock()
	}
	var wg sync.WaitGroup
	var drained []wsMsg
	drainStatus := 0
	drainOK := false
	w.K.Spawn("browser", func() {
		sc := newShimClient(w, 1)
		// the opens overlap
		var ow sync.WaitGroup
		for i, s := range sessions {
			i, s := i, s
			ow.Add(1)
			go func() {
				defer ow.Done()
				st, rep, _, err := sc.open(fmt.Sprintf("ws://example.test/s%d", i))
				if err == nil && st == 200 && rep != nil {
					s.id = rep.ID
					s.opened = true
				}
			}()
		}
		ow.Wait()
		if nSess > 1 && hsDelay > 0 {
			w.Probe("overlapping_opens")
		}
		if stalled && sessions[0].opened {
			// wedge session 0's relay: one message larger than the socket buffers, then
			// more small ones than the relay queues; these posts may never be answered
			for j := 0; j < 14; j++ {
				j := j
				go func() {
					m := wsMsg{Data: []byte(fmt.Sprintf("small-%d", j))}
					if j == 0 {
						m = wsMsg{Data: []byte(strings.Repeat("L", 200000))}
					}
					sc.data(sessions[0].id, 1, []wsMsg{m})
				}()
				time.Sleep(10 * time.Millisecond)
			}
			time.Sleep(time.Second)
		}
		for _, c := range calls {
			c := c
			wg.Add(1)
			go func() {
				defer wg.Done()
				if c.Kind == "open" {
					c.Started = true
					c.InvAt = w.K.Now()
					c.Invoke = w.K.Seq()
					st, _, _, err := sc.open("ws://example.test/mute")
					c.Return = w.K.Seq()
					c.RetAt = w.K.Now()
					c.Status = st
					if err != nil {
						c.Err = err.Error()
					}
					c.Done = true
					return
				}
				if c.At > 0 {
					time.Sleep(c.At)
				}
				id := sessions[c.Sess].id
				switch c.Arg {
				case "unknown":
					id = []string{"9999", "", "abc", "-1", "1 "}[int(c.At/time.Millisecond)%5]
				}
				var body []byte
				switch c.Kind {
				case "data":
					body = sc.encode(id, 1, []wsMsg{{Data: []byte("hello")}, {Binary: true, Data: []byte{0, 1, 2}}})
					if c.Arg == "malformed" {
						body = []byte(`{"id": "` + id + `", "msg": `)
					} else if c.Arg == "empty" {
						body = nil
					} else if c.Arg == "mixedbatch" {
						// a batch whose first entry names this session and whose second names no session
						body = []byte(`[{"id":"` + id + `","msg":"first"},{"id":"` + []string{"9999", "", "nosuch"}[c.Idx%3] + `","msg":"second"}]`)
					} else if c.Arg == "oddmsg" {
						// well-formed JSON for a live session whose message is not a string
						// or a one-element array of a string
						odd := []string{`[123]`, `[null]`, `[{"a":1}]`, `[["x"]]`, `17`, `null`, `{"k":"v"}`, `["a","b"]`, `[]`, `true`, `[1.5e300]`}
						// a rejected message ends its post, so one odd message per post
						body = []byte(`[{"id":"` + id + `","msg":` + odd[(int(c.At/time.Millisecond)+c.Sess+len(id)+c.Idx)%len(odd)] + `}]`)
					}
				default:
					body, _ = json.Marshal(map[string]string{"id": id})
					if c.Arg == "malformed" {
						body = []byte(`[[["id"]]`)
					} else if c.Arg == "empty" {
						body = nil
					}
				}
				c.Started = true
				c.InvAt = w.K.Now()
				c.Invoke = w.K.Seq()
				st, _, err := sc.call(c.Kind, body)
				c.Return = w.K.Seq()
				c.RetAt = w.K.Now()
				c.Status = st
				if err != nil {
					c.Err = err.Error()
				}
				c.Done = true
			}()
		}
		wg.Wait()
		if backendCloses && sessions[0].opened {
			// after the backend closed: polls deliver what was received, then 400
			time.Sleep(5 * time.Second)
			closedByClient := false
			for _, c := range calls {
				if c.Sess == 0 && c.Kind == "close" && c.Arg == "valid" {
					closedByClient = true
				}
				if c.Sess == 0 && (c.Arg == "valid" || c.Arg == "mixedbatch") {
					// an earlier poll may have consumed messages, and a data call on a
					// session whose backend is gone tears the relay down early; the clause
					// is asserted for sessions that were only polled after the backend closed
					closedByClient = true
				}
			}
			if !closedByClient {
				drainOK = true
				for i := 0; i < 40; i++ {
					st, msgs, err := sc.poll(sessions[0].id, 1)
					if err != nil {
						drainStatus = -1
						break
					}
					drainStatus = st
					if st != 200 {
						break
					}
					drained = append(drained, msgs...)
				}
			}
		}
		time.Sleep(3 * time.Second)
		w.K.Stop()
	})
	w.K.Horizon = 20 * time.Minute
	var desc []string
	for _, c := range calls {
		desc = append(desc, fmt.Sprintf("%s(s%d,%s)@%v", c.Kind, c.Sess, c.Arg, c.At))
	}
	w.Sample = map[string]interface{}{"sessions": nSess, "calls": strings.Join(desc, " "), "backend_closes": backendCloses, "backend_msgs": nb}
	w.OnCheck(func() {
		for _, e := range w.K.Exits {
			w.Violation("crash", "node %s exited: %s", e.Node, e.Msg)
		}
		for i, s := range sessions {
			if !s.opened {
				w.Violation("open", "open of session %d failed", i)
				return
			}
		}
		// first successful close per session
		closeRet := map[int]uint64{}
		sort.SliceStable(calls, func(i, j int) bool { return calls[i].Return < calls[j].Return })
		for _, c := range calls {
			if c.Done && c.Kind == "close" && c.Arg == "valid" && c.Status == 200 {
				if _, ok := closeRet[c.Sess]; !ok {
					closeRet[c.Sess] = c.Return
				}
			}
		}
		sameInstant := 0
		for _, c := range calls {
			name := fmt.Sprintf("%s(session %d, %s argument)", c.Kind, c.Sess, c.Arg)
			if stalled && c.Sess == 0 && c.Arg != "unknown" && c.Arg != "malformed" && c.Arg != "empty" {
				continue // may block while its backend does not read
			}
			if !c.Done {
				w.Violation("unanswered", "a shim call never got an HTTP answer | %s issued at %v", name, c.At)
				continue
			}
			if c.Err != "" {
				w.Violation("unanswered", "a shim call failed without an HTTP status | %s: %s", name, c.Err)
				continue
			}
			if c.Status != 200 && c.Status != 400 && c.Status != 408 && c.Status != 500 {
				w.Violation("status", "a shim call was answered with an unexpected status | %s: %d", name, c.Status)
			}
			if c.RetAt-c.InvAt > 5*time.Minute {
				w.Violation("unanswered", "a shim call was only answered after more than five simulated minutes | %s returned after %v", name, c.RetAt-c.InvAt)
			}
			if c.Arg == "mixedbatch" {
				w.Probe("batch_with_a_bad_session_entry")
			}
			if (c.Arg == "unknown" || c.Arg == "malformed" || c.Arg == "empty" || c.Arg == "mixedbatch") && c.Status != 400 {
				w.Violation("rejected", "a call with an unknown session ID or malformed body was not rejected with 400 | %s: %d", name, c.Status)
			}
			if r, ok := closeRet[c.Sess]; ok && c.Arg == "valid" && c.Invoke > r && c.Status != 400 {
				w.Violation("rejected", "a call on a session whose close had already been answered was not rejected with 400 | %s: %d", name, c.Status)
			}
			// (only when the backend had sent nothing before closing: with undelivered
			// messages queued the relay may not have read as far as the close yet)
			if backendCloses && nb == 0 && c.Sess == 0 && c.Kind == "data" && (c.Arg == "valid" || c.Arg == "oddmsg") && sessions[0].bclosedAt > 0 && c.InvAt > sessions[0].bclosedAt+time.Second {
				w.Probe("data_after_backend_closed")
				if c.Status != 400 {
					w.Violation("rejected", "a data call on a session whose backend had closed the websocket a second or more before was not rejected with 400 | %s at %v (backend closed at %v): %d", name, c.InvAt, sessions[0].bclosedAt, c.Status)
				}
			}
			if c.At == 0 {
				sameInstant++
			}
			if c.Arg == "oddmsg" {
				w.Probe("odd_message_types")
			}
		}
		if sameInstant >= 2 {
			w.Probe("concurrent_calls")
		}
		for i := range sessions {
			closers, datas := 0, 0
			for _, c := range calls {
				if c.Sess == i && c.Arg == "valid" && c.At == 0 {
					if c.Kind == "close" {
						closers++
					}
					if c.Kind == "data" {
						datas++
					}
				}
			}
			if closers >= 2 {
				w.Probe("double_close_same_instant")
			}
			if closers >= 1 && datas >= 1 {
				w.Probe("data_racing_close")
			}
		}
		// closing a session closes the backend websocket
		for i, s := range wb.Sessions {
			_ = s
			if i < nSess {
				s.mu.Lock()
				closed := s.Closed
				s.mu.Unlock()
				if stalled && s.Path == "/s0" {
					continue
				}
				if _, ok := closeRet[sessIndexOf(wb, s, nSess)]; ok && !closed {
					w.Violation("close", "the session was closed by the client but the backend websocket is still open")
				}
			}
		}
		if backendCloses && drainOK {
			w.Probe("backend_closed_first")
			if drainStatus != 400 {
				w.Violation("backend-close", "after the backend closed, polling did not end with 400 | last status %d after %d messages", drainStatus, len(drained))
			}
			if ok, why := sameMsgs(sessions[0].bsent, drained); !ok {
				w.Violation("backend-close", "after the backend closed, polls did not deliver exactly the messages already received | %s", why)
			}
		}
	})
}

// sessIndexOf maps a backend-side session to the client-side index by its path (/s<i>).
func sessIndexOf(wb *wsBackend, s *wsSession, n int) int {
	var i int
	if _, err := fmt.Sscanf(s.Path, "/s%d", &i); err == nil && i < n {
		return i
	}
	return -1
}
