package harness

import (
	"bytes"
	"fmt"
	"net/http"
	"strings"
	"sync"
	"syscall"
	"time"

	"golang.org/x/net/http2"
	"golang.org/x/net/http2/h2c"

	"verif/sim"
)

func init() { register("C05", worldC05) }

// streamCounter incrementally decodes an uploaded serialised response
// (header block, then chunked body) and counts decoded body bytes.
type streamCounter struct {
	hdrDone bool
	hdrBuf  []byte
	state   int // 0 size line, 1 data, 2 CR LF after data, 3 trailers/done
	sizeBuf []byte
	remain  int
	skip    int
	Body    int
	Done    bool
	Bad     string
}

func (s *streamCounter) Feed(p []byte) {
	if !s.hdrDone {
		s.hdrBuf = append(s.hdrBuf, p...)
		i := bytes.Index(s.hdrBuf, []byte("\r\n\r\n"))
		if i < 0 {
			return
		}
		p = s.hdrBuf[i+4:]
		s.hdrDone = true
	}
	for len(p) > 0 && !s.Done {
		switch s.state {
		case 0:
			c := p[0]
			p = p[1:]
			if c == '\n' {
				line := string(bytes.TrimRight(s.sizeBuf, "\r"))
				s.sizeBuf = s.sizeBuf[:0]
				n := 0
				if _, err := fmt.Sscanf(line, "%x", &n); err != nil {
					s.Bad = "bad chunk size line " + line
					s.Done = true
					return
				}
				if n == 0 {
					s.Done = true
					return
				}
				s.remain = n
				s.state = 1
			} else {
				s.sizeBuf = append(s.sizeBuf, c)
			}
		case 1:
			n := len(p)
			if n > s.remain {
				n = s.remain
			}
			s.Body += n
			s.remain -= n
			p = p[n:]
			if s.remain == 0 {
				s.state = 2
				s.skip = 2
			}
		case 2:
			n := len(p)
			if n > s.skip {
				n = s.skip
			}
			s.skip -= n
			p = p[n:]
			if s.skip == 0 {
				s.state = 0
			}
		}
	}
}

// worldC05: a lock-step backend emits chunk i+1 only after the (fake) proxy
// has seen chunk i. A design that holds back flushed bytes stalls forever,
// which in simulated time is an exact liveness failure.
func worldC05(w *World) {
	t := w.T
	w.K.ChaosMult = []int{2, 1, 4}[t.Choice(3, "chaos")]
	lat := []time.Duration{0, time.Millisecond, 20 * time.Millisecond, 200 * time.Millisecond}[t.Choice(4, "latency")]
	w.K.LatencyMenu = []time.Duration{lat}
	w.K.SegmentPct = []int{0, 20}[t.Choice(2, "segpct")]
	w.K.SendBuf = []int{64 << 10, 4 << 10, 1 << 10, 256 << 10}[t.Choice(4, "sendbuf")]
	nMax := 12
	sizes := []int{1, 1, 7, 100, 4095, 4096, 4097, 70 << 10}
	if w.Tier == "thorough" {
		nMax = 200
		sizes = append(sizes, 1<<20, 2<<20)
	}
	n := t.Range(1, nMax, "chunks")
	// trickle: the backend does not wait for anybody; it flushes many tiny chunks
	// at short regular intervals (each must still become visible within the bound)
	trickle := t.Rare(1, 5, "trickle")
	trickleGap := []time.Duration{4 * time.Millisecond, 20 * time.Millisecond, 40 * time.Millisecond}[t.Choice(3, "tricklegap")]
	if trickle {
		n = []int{60, 200, 700}[t.Choice(3, "tricklechunks")]
	}
	chunks := make([]int, n)
	pauses := make([]time.Duration, n)
	total := 0
	for i := range chunks {
		chunks[i] = sizes[t.Choice(len(sizes), "chunksize")]
		pauses[i] = []time.Duration{0, 0, 10 * time.Millisecond, 5 * time.Second}[t.Choice(4, "pause")]
		if trickle {
			chunks[i] = 1 + i%4
			pauses[i] = trickleGap
		}
		total += chunks[i]
	}
	// the agent may run on a VM whose metadata server stalls when the VM identity
	// token is refreshed (every 10 s); the request is handed out during the stall
	gce := t.Rare(1, 6, "gce")
	if gce {
		idCalls := 0
		sim.GCE.On = true
		sim.GCE.Get = func(path string) (string, error) {
			if strings.Contains(path, "/identity") {
				idCalls++
				if idCalls > 1 {
					w.K.Count("fault.metadata_server_stalls_on_identity_refresh")
					time.Sleep(25 * time.Second)
				}
				return fmt.Sprintf("vm-identity-token-%d", idCalls), nil
			}
			return "sa@project.iam.gserviceaccount.example", nil
		}
	}
	// an HTTP/2 (h2c) backend whose single multiplexed connection was opened by an
	// earlier request almost one --proxy-timeout (60 s here) before the stream
	h2aged := !gce && !trickle && t.Rare(1, 6, "h2aged") && lat <= time.Millisecond
	if h2aged {
		// (the whole stream must stay well below the agent's 60 s client timeout)
		for i := range chunks {
			if chunks[i] > 4097 {
				chunks[i] = 4097
			}
		}
		if n > 6 {
			n = 6
			chunks, pauses = chunks[:n], pauses[:n]
		}
		total = 0
		for _, c := range chunks {
			total += c
		}
		for i := range pauses {
			pauses[i] = []time.Duration{time.Second, 3 * time.Second}[i%2]
		}
	}
	// the agent may be told to shut down gracefully (SIGTERM with a two-minute grace
	// period) while the response is being streamed: the stream must go on
	graceful := !gce && !trickle && !h2aged && t.Rare(1, 6, "graceful")
	if graceful {
		if n > 6 {
			n = 6
			chunks, pauses = chunks[:n], pauses[:n]
		}
		total = 0
		for i := range chunks {
			if pauses[i] > time.Second {
				pauses[i] = 10 * time.Millisecond
			}
			if chunks[i] > 4097 {
				chunks[i] = 4097
			}
			total += chunks[i]
		}
	}
	// the backend may take a while before it produces the first byte
	startDelay := []time.Duration{0, 0, 300 * time.Millisecond, 2 * time.Second}[t.Choice(4, "startdelay")]
	// bounded time: documented flush interval (100 ms) plus network, with slack
	// bounded time per chunk: flush interval and processing slack, plus the
	// time the simulated network needs to carry the chunk over two hops
	bound := func(sz int) time.Duration {
		return 2*time.Second + lat*time.Duration(8+4*(sz/w.K.SendBuf+1))
	}
	D := bound(0)
	w.K.MaxSteps = 3000000
	// swarm: the handler chain the response passes through, and the backend's framing
	var agentArgs []string
	sessions := t.Rare(1, 3, "sessions")
	banner := t.Rare(1, 3, "banner")
	shim := t.Rare(1, 4, "shim")
	declareLength := t.Rare(1, 3, "content-length")
	if sessions {
		agentArgs = append(agentArgs, "-session-cookie-name=psess")
	}
	if banner {
		agentArgs = append(agentArgs, "-inject-banner=<b>banner</b>")
	}
	if shim {
		agentArgs = append(agentArgs, "-shim-websockets", "-shim-path=shim")
	}
	fp := NewFakeProxy(w)
	id := "stream1"
	fp.AddRequest(id, serialiseRequest("GET", "/stream", "example.test", http.Header{"Accept": {"text/html,*/*"}}, nil), "")
	listed := false
	warmListed := false
	if h2aged {
		fp.AddRequest("warm", serialiseRequest("GET", "/warm", "example.test", http.Header{}, nil), "")
	}
	// other responses may be streaming already: four long-lived ones are under way
	// when the measured request is announced, together with a fifth
	bgStreams := !gce && !h2aged && !graceful && t.Rare(1, 8, "background-streams")
	bgListed := false
	bgFirst := t.Choice(2, "bgorder") == 0
	if bgStreams {
		for i := 0; i < 5; i++ {
			fp.AddRequest(fmt.Sprintf("bg%d", i), serialiseRequest("GET", "/bg", "example.test", http.Header{}, nil), "")
		}
		w.Probe("other_streams_open_when_the_stream_starts")
	}
	fp.OnList = func(k int, r *http.Request) (int, []byte) {
		if bgStreams && !bgListed {
			bgListed = true
			return 200, jsonList([]string{"bg0", "bg1", "bg2", "bg3"})
		}
		if bgStreams && !listed {
			listed = true
			time.Sleep(2 * time.Second)
			if bgFirst {
				return 200, jsonList([]string{"bg4", id})
			}
			return 200, jsonList([]string{id, "bg4"})
		}
		if h2aged && !warmListed {
			warmListed = true
			return 200, jsonList([]string{"warm"})
		}
		if h2aged && !listed {
			// the stream starts 55 s after the connection to the backend was opened
			time.Sleep(55 * time.Second)
			w.Probe("stream_over_aged_http2_backend_connection")
		}
		if !listed {
			listed = true
			if gce {
				// long poll: the request shows up while the identity refresh is stalled
				time.Sleep(11 * time.Second)
				w.Probe("upload_starts_while_vm_identity_refresh_stalls")
			}
			return 200, jsonList([]string{id})
		}
		return 0, nil
	}
	// fault: the proxy answers the first upload attempt with a 503 while the response is
	// still being streamed (the retry must replay what was sent and keep streaming)
	// (only while the prefix sent so far is still replayable: first chunk well below 4 KiB)
	early503 := t.Rare(1, 4, "early503") && chunks[0] <= 3000
	// ... or refuses the first attempt at once, before the response has even started
	refuseFirst := !early503 && startDelay > 0 && t.Rare(1, 2, "refusefirst")
	htmlType := !banner && t.Rare(1, 3, "htmltype")
	var mu sync.Mutex
	sc := &streamCounter{}
	fp.OnUpload = func(uid string, attempt int, rw http.ResponseWriter, r *http.Request) bool {
		if uid == "warm" || strings.HasPrefix(uid, "bg") {
			return false
		}
		mu.Lock()
		*sc = streamCounter{}
		mu.Unlock()
		if refuseFirst && attempt == 0 {
			w.K.Count("fault.upload_503_before_response_started")
			rw.Header().Set("Connection", "close")
			http.Error(rw, "injected", 503)
			return true
		}
		if early503 && attempt == 0 {
			w.K.Count("fault.upload_503_while_streaming")
			// wait for the first body bytes, then refuse
			buf := make([]byte, 512)
			r.Body.Read(buf)
			rw.Header().Set("Connection", "close")
			http.Error(rw, "injected", 503)
			return true
		}
		return false
	}
	seen := make(chan int, 100000)
	type arrival struct {
		body int
		at   time.Duration
	}
	var arrivals []arrival
	fp.OnChunk = func(cid string, _ int, piece []byte) {
		if cid == "warm" || strings.HasPrefix(cid, "bg") {
			return
		}
		mu.Lock()
		sc.Feed(piece)
		b := sc.Body
		arrivals = append(arrivals, arrival{b, w.K.Now()})
		mu.Unlock()
		select {
		case seen <- b:
		default:
		}
	}
	fp.Start()
	type chunkObs struct {
		flushed, visible time.Duration
		ok               bool
	}
	obs := make([]chunkObs, n)
	finished := false
	w.K.Spawn("agenthost", func() {
		l, err := sim.Listen("tcp", ":8080")
		if err != nil {
			panic(err)
		}
		handler := http.HandlerFunc(func(rw http.ResponseWriter, r *http.Request) {
			if r.URL.Path == "/warm" {
				rw.Write([]byte("warm"))
				return
			}
			if r.URL.Path == "/bg" {
				// a long-lived stream: one byte now, the rest much later
				rw.Write([]byte("x"))
				rw.(http.Flusher).Flush()
				time.Sleep(time.Hour)
				return
			}
			if htmlType {
				rw.Header().Set("Content-Type", "text/html; charset=utf-8")
			} else {
				rw.Header().Set("Content-Type", "application/octet-stream")
			}
			if declareLength {
				rw.Header().Set("Content-Length", fmt.Sprint(total))
			}
			if startDelay > 0 {
				time.Sleep(startDelay)
			}
			rw.WriteHeader(200)
			fl := rw.(http.Flusher)
			sent := 0
			have := 0
			if trickle {
				for i, sz := range chunks {
					time.Sleep(pauses[i])
					if _, err := rw.Write(tokenBody(fmt.Sprintf("chunk%d", i), sz)); err != nil {
						return
					}
					fl.Flush()
					mu.Lock()
					obs[i].flushed = w.K.Now()
					mu.Unlock()
				}
				finished = true
				return
			}
			for i, sz := range chunks {
				if pauses[i] > 0 {
					time.Sleep(pauses[i])
				}
				if _, err := rw.Write(tokenBody(fmt.Sprintf("chunk%d", i), sz)); err != nil {
					return
				}
				fl.Flush()
				sent += sz
				obs[i].flushed = w.K.Now()
				deadline := time.NewTimer(bound(sz))
				for have < sent {
					select {
					case b := <-seen:
						if b > have {
							have = b
						}
					case <-deadline.C:
						// not visible in time: stop producing (the oracle reports it)
						return
					}
				}
				deadline.Stop()
				obs[i].visible = w.K.Now()
				obs[i].ok = true
				if graceful && i == 0 && n > 1 {
					w.K.Signal("agenthost", syscall.SIGTERM)
					w.Probe("shutdown_signal_while_streaming")
				}
			}
			finished = true
		})
		if h2aged {
			http.Serve(l, h2c.NewHandler(handler, &http2.Server{}))
			return
		}
		http.Serve(l, handler)
	})
	// the agent's client timeout bounds the whole upload; a stream that is still
	// being produced must not run into it, so it is configured out of the way
	if graceful {
		agentArgs = append(agentArgs, "-graceful-shutdown-timeout=2m")
	}
	if h2aged {
		// (default --proxy-timeout of 60 s: the stream itself lasts well below it)
		startAgent(w, append(agentArgs, "-force-http2")...)
	} else {
		startAgent(w, append(agentArgs, "-proxy-timeout=3h")...)
	}
	w.K.Spawn("controller", func() {
		for {
			time.Sleep(time.Second)
			fp.mu.Lock()
			ups := fp.Uploads[id]
			done := len(ups) > 0 && ups[len(ups)-1].Status != 0
			fp.mu.Unlock()
			if done {
				break
			}
		}
		w.K.Stop()
	})
	w.K.Horizon = time.Duration(n)*(bound(2<<20)+6*time.Second) + 5*time.Minute
	w.Sample = map[string]interface{}{"agent_flags": agentArgs, "content_length_declared": declareLength, "chunks": chunks, "latency_ms": lat.Milliseconds(), "sendbuf": w.K.SendBuf, "bound_ms": D.Milliseconds()}
	w.OnCheck(func() {
		for _, e := range w.K.Exits {
			w.Violation("crash", "node %s exited: %s", e.Node, e.Msg)
		}
		if trickle {
			// when did each chunk's last byte become visible at the proxy?
			mu.Lock()
			off := 0
			j := 0
			for i := range obs {
				off += chunks[i]
				for j < len(arrivals) && arrivals[j].body < off {
					j++
				}
				if j < len(arrivals) {
					obs[i].visible = arrivals[j].at
					obs[i].ok = obs[i].visible-obs[i].flushed <= bound(chunks[i])
				}
				if refuseFirst || early503 {
					obs[i].ok = obs[i].ok || j < len(arrivals) // a replayed prefix arrives late by design
				}
			}
			mu.Unlock()
			w.Probe("trickle_of_tiny_chunks")
		}
		if refuseFirst {
			w.Probe("upload_refused_before_response_started")
		}
		for i, o := range obs {
			if !o.ok {
				if o.flushed == 0 && i > 0 && !obs[i-1].ok {
					break
				}
				if trickle {
					w.Violation("streaming", "chunk %d of %d (%d bytes, flushed at %v) was not visible at the proxy within %v while the backend kept producing | visible at %v", i+1, n, chunks[i], o.flushed, bound(chunks[i]), o.visible)
					return
				}
				w.Violation("streaming", "chunk %d of %d (%d bytes, flushed at %v) was not visible at the proxy within %v while the backend was waiting", i+1, n, chunks[i], o.flushed, bound(chunks[i]))
				return
			}
		}
		if !finished {
			w.Violation("streaming", "the lock-step response did not complete")
			return
		}
		ups := fp.Uploads[id]
		last := (*Upload)(nil)
		if len(ups) > 0 {
			last = ups[len(ups)-1]
		}
		if last == nil || !last.Complete || last.ParseErr != "" {
			w.Violation("streaming", "the upload did not complete cleanly | attempts %d", len(ups))
			return
		}
		if len(last.RespBody) != total && !shim {
			w.Violation("streaming", "uploaded body has %d bytes, backend sent %d", len(last.RespBody), total)
		}
		if early503 {
			w.Probe("retry_while_streaming")
		}
		if total > w.K.SendBuf {
			w.Probe("body_larger_than_buffers")
		}
		if n > 1 {
			w.Probe("lockstep_multi_chunk")
		}
		if sessions || banner || shim {
			w.Probe("through_wrapped_handler_chain")
		}
		if declareLength && n > 1 {
			w.Probe("declared_length_multi_chunk")
		}
	})
}
