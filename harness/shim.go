package harness

import (
	"bytes"
	"encoding/base64"
	"encoding/json"
	"fmt"
	"io"
	"net/http"
	"sync"
	"time"

	"github.com/gorilla/websocket"
)

// shimClient follows the protocol of the injected browser-side shim: open,
// then data posts and polls (one of each outstanding at a time), then close.
// Calls travel client -> real proxy -> real agent (handler chain with the shim).
type shimClient struct {
	w       *World
	cl      *http.Client
	base    string
	Version int // value of X-Websocket-Shim-Version ("" if < 0)
	Extra   http.Header
}

type wsMsg struct {
	Binary bool
	Data   []byte
}

func (m wsMsg) String() string {
	k := "text"
	if m.Binary {
		k = "bin"
	}
	return fmt.Sprintf("%s[%d]", k, len(m.Data))
}

func newShimClient(w *World, version int) *shimClient {
	return &shimClient{w: w, cl: w.Client(), base: "http://proxy:80/shim/", Version: version}
}

// call posts body to a shim endpoint and returns status and reply body.
func (s *shimClient) call(action string, body []byte) (int, []byte, error) {
	var rd io.Reader = bytes.NewReader(body)
	if s.w.ShimChunked {
		rd = struct{ io.Reader }{rd} // length unknown to net/http: chunked
	}
	req, _ := http.NewRequest("POST", s.base+action, rd)
	req.Host = "example.test"
	if s.Version >= 0 {
		req.Header.Set("X-Websocket-Shim-Version", fmt.Sprint(s.Version))
	}
	for k, vs := range s.Extra {
		req.Header[k] = vs
	}
	resp, err := s.cl.Do(req)
	if err != nil {
		return 0, nil, err
	}
	b, err := io.ReadAll(resp.Body)
	resp.Body.Close()
	return resp.StatusCode, b, err
}

type openReply struct {
	ID  string `json:"id"`
	Msg string `json:"msg"`
	V   int    `json:"v"`
	S   string `json:"s"`
}

func (s *shimClient) open(url string) (int, *openReply, []byte, error) {
	st, b, err := s.call("open", []byte(url))
	if err != nil || st != 200 {
		return st, nil, b, err
	}
	var r openReply
	if jerr := json.Unmarshal(b, &r); jerr != nil {
		return st, nil, b, jerr
	}
	return st, &r, b, nil
}

// encode renders messages as one data post for session id.
func (s *shimClient) encode(id string, v int, msgs []wsMsg) []byte {
	type item struct {
		ID  string      `json:"id"`
		Msg interface{} `json:"msg"`
	}
	var items []item
	for _, m := range msgs {
		if !m.Binary {
			items = append(items, item{id, string(m.Data)})
		} else if v == 0 {
			items = append(items, item{id, []string{string(m.Data)}})
		} else {
			items = append(items, item{id, []string{base64.StdEncoding.EncodeToString(m.Data)}})
		}
	}
	b, _ := json.Marshal(items)
	return b
}

func (s *shimClient) data(id string, v int, msgs []wsMsg) (int, error) {
	st, _, err := s.call("data", s.encode(id, v, msgs))
	return st, err
}

// poll returns the decoded server messages of one poll.
func (s *shimClient) poll(id string, v int) (int, []wsMsg, error) {
	b, _ := json.Marshal(map[string]string{"id": id})
	st, rb, err := s.call("poll", b)
	if err != nil || st != 200 {
		return st, nil, err
	}
	var raw []interface{}
	if jerr := json.Unmarshal(rb, &raw); jerr != nil {
		return st, nil, fmt.Errorf("poll reply is not a JSON array: %v", jerr)
	}
	var out []wsMsg
	for _, r := range raw {
		switch x := r.(type) {
		case string:
			out = append(out, wsMsg{false, []byte(x)})
		case []interface{}:
			if len(x) != 1 {
				return st, nil, fmt.Errorf("binary message encoded as an array of %d", len(x))
			}
			str, _ := x[0].(string)
			if v == 0 {
				out = append(out, wsMsg{true, []byte(str)})
			} else {
				d, derr := base64.StdEncoding.DecodeString(str)
				if derr != nil {
					return st, nil, fmt.Errorf("binary message is not base64: %v", derr)
				}
				out = append(out, wsMsg{true, d})
			}
		default:
			return st, nil, fmt.Errorf("unexpected element %T in poll reply", r)
		}
	}
	return st, out, nil
}

func (s *shimClient) close(id string) (int, error) {
	b, _ := json.Marshal(map[string]string{"id": id})
	st, _, err := s.call("close", b)
	return st, err
}

// wsSession is what the recording websocket backend saw of one connection.
type wsSession struct {
	mu       sync.Mutex
	Path     string
	Host     string // Host of the handshake request
	Header   http.Header
	Recv     []wsMsg
	Closed   bool // read loop ended
	CloseAt  time.Duration
	CloseErr string
	conn     *websocket.Conn
	wmu      sync.Mutex
}

func (s *wsSession) send(m wsMsg) error {
	s.wmu.Lock()
	defer s.wmu.Unlock()
	t := websocket.TextMessage
	if m.Binary {
		t = websocket.BinaryMessage
	}
	return s.conn.WriteMessage(t, m.Data)
}

// closeFromBackend ends the websocket from the backend's side: a close frame
// (if graceful) and then the connection.
func (s *wsSession) closeFromBackend(graceful bool) {
	s.wmu.Lock()
	defer s.wmu.Unlock()
	if graceful {
		s.conn.WriteControl(websocket.CloseMessage, websocket.FormatCloseMessage(websocket.CloseNormalClosure, "done"), time.Now().Add(time.Second))
	}
	s.conn.Close()
}

// wsBackend wires a recordingBackend so that every websocket connection
// becomes a wsSession; OnSession runs once the session exists.
type wsBackend struct {
	rb       *recordingBackend
	mu       sync.Mutex
	Sessions []*wsSession
	OnOpen   func(s *wsSession)
	// Stubborn, if it returns true for a request URI, makes the backend ignore the
	// websocket closing handshake: it neither echoes a close frame nor hangs up, and
	// the session only counts as closed once the peer has ended the TCP connection.
	Stubborn func(uri string) bool
	// ReadPause, if it returns a positive duration for a request URI, makes the
	// backend wait that long before every read (a backend slower than its client).
	ReadPause func(uri string) time.Duration
	// Stalled, if it returns true for a request URI, makes the backend stop reading
	// altogether (the connection stays open).
	Stalled func(uri string) bool
}

func startWSBackend(w *World) *wsBackend {
	wb := &wsBackend{}
	wb.rb = startRecordingBackend(w)
	wb.rb.OnWS = func(c *websocket.Conn, r *http.Request) {
		s := &wsSession{Path: r.URL.RequestURI(), Host: r.Host, Header: r.Header.Clone(), conn: c}
		wb.mu.Lock()
		wb.Sessions = append(wb.Sessions, s)
		on := wb.OnOpen
		wb.mu.Unlock()
		if on != nil {
			go on(s)
		}
		c.SetReadLimit(64 << 20)
		stubborn := wb.Stubborn != nil && wb.Stubborn(s.Path)
		if stubborn {
			c.SetCloseHandler(func(int, string) error { return nil })
		}
		pause := time.Duration(0)
		if wb.ReadPause != nil {
			pause = wb.ReadPause(s.Path)
		}
		if wb.Stalled != nil && wb.Stalled(s.Path) {
			// never reads; ends when the peer is gone (the world ends first)
			time.Sleep(1000 * time.Hour)
		}
		for {
			if pause > 0 {
				time.Sleep(pause)
			}
			mt, data, err := c.ReadMessage()
			if err != nil {
				if _, isClose := err.(*websocket.CloseError); isClose && stubborn {
					// keep the socket open until the peer ends it
					raw := c.UnderlyingConn()
					buf := make([]byte, 512)
					for {
						if _, rerr := raw.Read(buf); rerr != nil {
							break
						}
					}
				}
				s.mu.Lock()
				s.Closed = true
				s.CloseAt = w.K.Now()
				s.CloseErr = err.Error()
				s.mu.Unlock()
				return
			}
			s.mu.Lock()
			s.Recv = append(s.Recv, wsMsg{mt == websocket.BinaryMessage, data})
			s.mu.Unlock()
		}
	}
	return wb
}

func sameMsgs(a, b []wsMsg) (bool, string) {
	for i := 0; i < len(a) && i < len(b); i++ {
		if a[i].Binary != b[i].Binary {
			return false, fmt.Sprintf("message %d: type differs (%v vs %v)", i, a[i], b[i])
		}
		if !bytes.Equal(a[i].Data, b[i].Data) {
			return false, fmt.Sprintf("message %d: payload differs (%v vs %v)", i, a[i], b[i])
		}
	}
	if len(a) != len(b) {
		return false, fmt.Sprintf("%d messages vs %d", len(a), len(b))
	}
	return true, ""
}
