package harness

import (
	"fmt"
	"io"
	"net/http"
	"net/http/cookiejar"
	"net/url"
	"sort"
	"strings"
	"sync"
	"time"

	"golang.org/x/net/publicsuffix"

	"verif/sim"
)

func init() { register("C10", worldC10) }

type c10Req struct {
	Browser int
	Host    string
	Path    string
	Set     []string // Set-Cookie strings the backend will emit
	Gap     time.Duration
	Burst   bool
	// DelayMs makes the backend answer late; MustHave is a cookie the backend must see
	DelayMs  int
	MustHave string
	// Interim makes the backend send a 103 before its final response; DupSess makes
	// the client present its session cookie twice (1: same header line, 2: two lines)
	Interim bool
	DupSess int
	// FollowUp is issued by the same browser as soon as the response header of this
	// request has arrived, before its body is read
	FollowUp *c10Req
	// MustHaveWhy describes the scenario of a MustHave check
	MustHaveWhy string
	// EmptySess: a client without a session presents the session cookie with an
	// empty value; WSOpen: the request is a websocket-shim open for ws://Host/Path
	EmptySess bool
	WSOpen    bool
}

// worldC10: session tracking against an independent cookie jar per modelled session.
func worldC10(w *World) {
	t := w.T
	w.K.ChaosMult = []int{2, 1, 4}[t.Choice(3, "chaos")]
	w.K.LatencyMenu = [][]time.Duration{{0}, {0, time.Millisecond}}[t.Choice(2, "latprofile")]
	nB := t.Range(1, 4, "browsers")
	smallLRU := w.Cfg == "lru"
	limit := 1000
	if smallLRU {
		nB = t.Range(3, 6, "browsers")
		limit = 2
	}
	noSSL := t.Choice(2, "disable-ssl") == 1
	// with a (large) banner configured, HTML navigations are answered with a frame page
	// that is written through the session layer
	bigBanner := t.Rare(1, 3, "bigbanner")
	// with the websocket shim mounted, a shimmed open must carry the session's cookies
	// for the websocket's own URL
	shimOn := t.Rare(1, 3, "shim")
	timeout := []time.Duration{12 * time.Hour, time.Hour, 10 * time.Minute}[t.Choice(3, "timeout")]
	// the registrable domain sits under a one-label or a two-label public suffix
	suffix := []string{"test", "co.uk"}[t.Choice(2, "suffix")]
	base := "example." + suffix
	hosts := []string{"app." + base, "other." + base, base}
	paths := []string{"/", "/a", "/a/b", "/c"}
	names := []string{"sid", "pref", "token", "lang", "cart"}
	mkSet := func(b, k int) string {
		name := names[t.Choice(len(names), "cname")]
		val := fmt.Sprintf("b%d-v%d-%d", b, k, t.Choice(1000, "cval"))
		s := name + "=" + val
		switch t.Pick("cattr", 4, 2, 2, 2, 2, 2, 1, 1, 1) {
		case 1:
			s += "; Path=" + paths[t.Choice(len(paths), "cpath")]
		case 2:
			s += "; Domain=" + base
		case 3:
			s += fmt.Sprintf("; Max-Age=%d", []int{3, 30, 3600}[t.Choice(3, "maxage")])
		case 4:
			s += "; Secure; HttpOnly"
		case 5:
			s = name + "=gone; Max-Age=0" // delete
		case 6:
			s = name + "=old; Expires=Thu, 01 Jan 1970 00:00:00 GMT"
		case 8:
			// a line browsers accept but Go's cookie parser rejects (the reference jar, which
			// parses the same way, never holds it; it must still not reach the client)
			s = []string{"prefs[theme]=dark; Path=/", "my name=x", "lang=fran\xe7ais; Path=/"}[t.Choice(3, "oddcookie")]
			w.Probe("set_cookie_line_the_parser_rejects")
		case 7:
			// a cookie for the whole public suffix: a compliant jar refuses it
			s += "; Domain=" + suffix
			w.Probe("public_suffix_domain_cookie")
		}
		return s
	}
	var script []c10Req
	nReq := t.Range(2, 8, "requests")
	for k := 0; k < nReq; k++ {
		r := c10Req{Browser: t.Choice(nB, "browser"), Host: hosts[t.Pick("host", 4, 2, 1)], Path: paths[t.Choice(len(paths), "path")]}
		ns := t.Pick("nset", 2, 3, 2, 1)
		for j := 0; j < ns; j++ {
			r.Set = append(r.Set, mkSet(r.Browser, k))
		}
		r.Gap = []time.Duration{0, 0, 2 * time.Second, 7 * time.Second, 100 * time.Second}[t.Choice(5, "gap")]
		r.Interim = t.Rare(1, 5, "interim")
		r.DupSess = t.Pick("dupsess", 6, 1, 1)
		r.EmptySess = t.Rare(1, 6, "emptysess")
		r.WSOpen = shimOn && t.Rare(1, 4, "wsopen")
		if r.WSOpen {
			r.Set = nil // (the handshake is not completed, nothing it sets would be kept)
		}
		if t.Rare(1, 4, "followup") {
			r.FollowUp = &c10Req{Browser: r.Browser, Host: r.Host, Path: paths[t.Choice(len(paths), "fpath")]}
		}
		script = append(script, r)
	}
	// a burst: every browser at once, one of them twice (disjoint cookie names)
	var burst []c10Req
	for b := 0; b < nB; b++ {
		burst = append(burst, c10Req{Browser: b, Host: hosts[0], Path: "/", Set: []string{fmt.Sprintf("burst%d=b%d-burst", b, b)}, Burst: true})
	}
	twin := t.Choice(nB, "twin")
	burst = append(burst, c10Req{Browser: twin, Host: hosts[0], Path: "/a", Set: []string{fmt.Sprintf("twin%d=b%d-twin", twin, twin)}, Burst: true})

	type browser struct {
		sess    string
		own     []string // the client's own other cookies
		jar     *cookiejar.Jar
		evicted bool
	}
	browsers := make([]*browser, nB)
	for i := range browsers {
		j, _ := cookiejar.New(&cookiejar.Options{PublicSuffixList: publicsuffix.List})
		browsers[i] = &browser{jar: j}
		if t.Rare(1, 2, "owncookies") {
			browsers[i].own = []string{fmt.Sprintf("theme=b%d-dark", i), fmt.Sprintf("x=b%d-1", i)}
		}
	}
	var mu sync.Mutex
	var lruOrder []int // most recently used sessions (model of the agent's window)
	touch := func(b int) {
		for i, x := range lruOrder {
			if x == b {
				lruOrder = append(lruOrder[:i], lruOrder[i+1:]...)
				break
			}
		}
		lruOrder = append(lruOrder, b)
		for len(lruOrder) > limit {
			ev := lruOrder[0]
			lruOrder = lruOrder[1:]
			browsers[ev].evicted = true
			nj, _ := cookiejar.New(&cookiejar.Options{PublicSuffixList: publicsuffix.List})
			browsers[ev].jar = nj
			w.Probe("lru_eviction")
		}
	}

	startProxy(w)
	// backend: emits the instructed Set-Cookie fields; oracle for what it receives
	w.K.Spawn("agenthost", func() {
		l, err := sim.Listen("tcp", ":8080")
		if err != nil {
			panic(err)
		}
		http.Serve(l, http.HandlerFunc(func(rw http.ResponseWriter, r *http.Request) {
			var b int
			fmt.Sscanf(r.Header.Get("X-Browser"), "%d", &b)
			burstReq := r.Header.Get("X-Burst") == "1"
			host := r.Host
			if h := r.Header.Get("X-Ws-Host"); h != "" {
				host = h // a shimmed websocket handshake arrives with the backend's own address as Host
			}
			u := &url.URL{Scheme: "https", Host: host, Path: r.URL.Path}
			mu.Lock()
			br := browsers[b]
			hadSession := r.Header.Get("X-Had-Session") == "1"
			var want []string
			want = append(want, br.own...)
			if hadSession {
				for _, c := range br.jar.Cookies(u) {
					want = append(want, c.Name+"="+c.Value)
				}
			}
			var got []string
			for _, c := range r.Cookies() {
				got = append(got, c.Name+"="+c.Value)
			}
			for _, g := range got {
				if strings.HasPrefix(g, "psess=") {
					w.Violation("session-cookie-leak", "the backend received the agent's own session cookie | %q", g)
				}
				var owner int
				if i := strings.Index(g, "=b"); i >= 0 {
					if _, err := fmt.Sscanf(g[i+2:], "%d-", &owner); err == nil && owner != b {
						w.Violation("cross-session", "the backend received a cookie of another session | request of browser %d carried %q", b, g)
					}
				}
			}
			exact := !burstReq && !br.evicted && !smallLRU
			if exact {
				sort.Strings(want)
				gs := append([]string(nil), got...)
				sort.Strings(gs)
				if strings.Join(want, "; ") != strings.Join(gs, "; ") {
					w.Violation("jar", "the backend did not see the cookies a standards-compliant jar holds for this session and URL plus the client's own | browser %d %s: want %q got %q", b, u, want, gs)
				}
				if len(want) > len(br.own) {
					w.Probe("cookies_restored")
				}
			} else if burstReq && !br.evicted && !smallLRU {
				// concurrent requests: everything the jar held before the burst must be there
				for _, x := range want {
					found := false
					for _, g := range got {
						if g == x {
							found = true
						}
					}
					if !found && !strings.Contains(x, "burst") && !strings.Contains(x, "twin") {
						w.Violation("jar", "a concurrent request lost a cookie the session already held | browser %d %s: missing %q in %q", b, u, x, got)
					}
				}
			}
			if mh := r.Header.Get("X-Must-Have"); mh != "" {
				found := false
				for _, g := range got {
					if g == mh {
						found = true
					}
				}
				why := r.Header.Get("X-Must-Have-Why")
				if why == "" {
					why = "a cookie set by a response that arrived after its session had been pushed out of the cache was lost although the session was used again at once"
					w.Probe("late_response_after_eviction")
				}
				if !found {
					w.Violation("jar", "%s | browser %d: want %q in %q", why, b, mh, got)
				}
			}
			if d := r.Header.Get("X-Delay-Ms"); d != "" {
				var ms int
				fmt.Sscanf(d, "%d", &ms)
				mu.Unlock()
				time.Sleep(time.Duration(ms) * time.Millisecond)
				mu.Lock()
				br = browsers[b]
			}
			// apply this response's cookies to the reference
			sets := r.Header.Values("X-Set")
			hdr := http.Header{}
			for _, s := range sets {
				hdr.Add("Set-Cookie", s)
				rw.Header().Add("Set-Cookie", s)
			}
			if len(sets) > 0 {
				br.jar.SetCookies(u, (&http.Response{Header: hdr}).Cookies())
			}
			touch(b)
			mu.Unlock()
			if r.Header.Get("X-Interim") == "1" {
				rw.Header().Set("Link", "</style.css>; rel=preload")
				rw.WriteHeader(103)
				rw.Header().Del("Link")
				w.Probe("interim_1xx")
			}
			rw.Header().Set("X-Echo", "ok")
			if r.Header.Get("X-Html") == "1" {
				rw.Header().Set("Content-Type", "text/html")
				rw.Write([]byte("<html><head><title>t</title></head><body>ok</body></html>"))
				return
			}
			rw.Write([]byte("ok"))
		}))
	})
	args := []string{"-session-cookie-name=psess", fmt.Sprintf("-session-cookie-cache-limit=%d", limit), "-session-cookie-timeout=" + timeout.String()}
	if noSSL {
		args = append(args, "-disable-ssl-for-test")
	}
	if shimOn {
		args = append(args, "-shim-websockets", "-shim-path=shim")
	}
	if bigBanner {
		args = append(args, "-inject-banner=<div>"+strings.Repeat("banner ", 30000)+"</div>", "-banner-height=40px")
	}
	startAgent(w, args...)

	var do func(cl *http.Client, r c10Req)
	do = func(cl *http.Client, r c10Req) {
		br := browsers[r.Browser]
		req, _ := http.NewRequest("GET", "http://proxy:80"+r.Path, nil)
		if r.WSOpen {
			req, _ = http.NewRequest("POST", "http://proxy:80/shim/open", strings.NewReader("ws://"+r.Host+r.Path))
			req.Header.Set("X-Ws-Host", r.Host)
			w.Probe("shimmed_websocket_open_in_a_session")
		}
		req.Host = r.Host
		req.Header.Set("X-Browser", fmt.Sprint(r.Browser))
		for _, s := range r.Set {
			req.Header.Add("X-Set", s)
		}
		if r.Burst {
			req.Header.Set("X-Burst", "1")
		}
		if r.DelayMs > 0 {
			req.Header.Set("X-Delay-Ms", fmt.Sprint(r.DelayMs))
		}
		if r.MustHave != "" {
			req.Header.Set("X-Must-Have", r.MustHave)
		}
		if r.Interim {
			req.Header.Set("X-Interim", "1")
		}
		if bigBanner && r.FollowUp != nil {
			req.Header.Set("Accept", "text/html")
			req.Header.Set("X-Html", "1")
		}
		if r.MustHaveWhy != "" {
			req.Header.Set("X-Must-Have-Why", r.MustHaveWhy)
		}
		mu.Lock()
		sess := br.sess
		var cs []string
		if sess != "" {
			cs = append(cs, "psess="+sess)
			req.Header.Set("X-Had-Session", "1")
		}
		if sess == "" && r.EmptySess {
			cs = append(cs, "psess=")
			w.Probe("empty_session_cookie_presented")
		}
		cs = append(cs, br.own...)
		if sess != "" && r.DupSess == 1 {
			cs = append(cs, "psess="+sess)
			w.Probe("session_cookie_presented_twice")
		}
		mu.Unlock()
		if len(cs) > 0 {
			req.Header.Set("Cookie", strings.Join(cs, "; "))
		}
		if sess != "" && r.DupSess == 2 {
			req.Header.Add("Cookie", "psess="+sess)
			w.Probe("session_cookie_presented_twice")
		}
		sentAt := time.Now()
		resp, err := cl.Do(req)
		if err != nil {
			w.Violation("progress", "a request through the session handler failed | %v", err)
			return
		}
		if resp.StatusCode != 200 && !r.WSOpen {
			w.Violation("progress", "a request through the session handler was answered %d", resp.StatusCode)
		}
		defer func() {
			io.Copy(io.Discard, resp.Body)
			resp.Body.Close()
		}()
		if r.FollowUp != nil {
			// runs after the session cookie (if any) of this response has been noted
			defer func() {
				w.Probe("follow_up_before_body_is_read")
				do(w.Client(), *r.FollowUp)
			}()
		}
		scs := resp.Header.Values("Set-Cookie")
		for _, sc := range scs {
			if !strings.HasPrefix(sc, "psess=") {
				w.Violation("backend-cookie-leak", "the client received a Set-Cookie other than the agent's session cookie | %q", sc)
				continue
			}
			if sess != "" {
				w.Violation("session-cookie", "a session cookie was issued to a client that already presented one | %q", sc)
			}
			c := (&http.Response{Header: http.Header{"Set-Cookie": {sc}}}).Cookies()[0]
			if !c.HttpOnly || c.Path != "/" || c.Secure == noSSL {
				w.Violation("session-cookie", "the session cookie has the wrong attributes | %q (test override %v)", sc, noSSL)
			}
			d := c.Expires.Sub(sentAt)
			if d < timeout-2*time.Second || d > timeout+time.Minute {
				w.Violation("session-cookie", "the session cookie does not expire after the configured lifetime | expires in %v, configured %v", d, timeout)
			}
			mu.Lock()
			br.sess = c.Value
			mu.Unlock()
			w.Probe("session_issued")
		}
		if sess == "" && len(scs) == 0 {
			w.Violation("session-cookie", "no session cookie was issued to a client that presented none")
		}
	}
	w.K.Spawn("browsers", func() {
		cl := w.Client()
		for _, r := range script {
			if r.Gap > 0 {
				time.Sleep(r.Gap)
			}
			do(cl, r)
		}
		// every browser needs a session before the burst
		for b := 0; b < nB; b++ {
			if browsers[b].sess == "" {
				do(cl, c10Req{Browser: b, Host: hosts[0], Path: "/"})
			}
		}
		var wg sync.WaitGroup
		for _, r := range burst {
			r := r
			wg.Add(1)
			go func() {
				defer wg.Done()
				do(w.Client(), r)
			}()
		}
		wg.Wait()
		w.Probe("concurrent_sessions")
		// after the burst: the twin session holds both cookies set concurrently
		if !smallLRU {
			do(cl, c10Req{Browser: twin, Host: hosts[0], Path: "/a"})
		} else {
			// a response that arrives after its session was pushed out of the cache:
			// browser 0 waits for a slow backend while every other session is used,
			// then uses its session again at once
			var lw sync.WaitGroup
			lw.Add(1)
			go func() {
				defer lw.Done()
				do(w.Client(), c10Req{Browser: 0, Host: hosts[0], Path: "/", Set: []string{"late=b0-late"}, DelayMs: 5000, Burst: true})
			}()
			time.Sleep(time.Second)
			for b := 1; b < nB; b++ {
				do(cl, c10Req{Browser: b, Host: hosts[0], Path: "/", Burst: true})
			}
			lw.Wait()
			do(cl, c10Req{Browser: 0, Host: hosts[0], Path: "/", MustHave: "late=b0-late", Burst: true})
			// a session that has dropped out of the cache is used again by two requests
			// at the same moment, one of whose responses sets a cookie
			for b := 1; b < nB; b++ {
				do(cl, c10Req{Browser: b, Host: hosts[0], Path: "/", Burst: true})
			}
			var cw sync.WaitGroup
			for k := 0; k < 2; k++ {
				k := k
				cw.Add(1)
				go func() {
					defer cw.Done()
					rq := c10Req{Browser: 0, Host: hosts[0], Path: "/", Burst: true}
					if k == 0 {
						rq.Set = []string{"conc=b0-conc"}
					}
					do(w.Client(), rq)
				}()
			}
			cw.Wait()
			w.Probe("concurrent_requests_in_uncached_session")
			do(cl, c10Req{Browser: 0, Host: hosts[0], Path: "/", MustHave: "conc=b0-conc", MustHaveWhy: "a cookie set by one of two simultaneous requests of a session that was not in the cache was lost although the session stayed in use", Burst: true})
		}
		w.K.Stop()
	})
	w.K.Horizon = 2 * time.Hour
	var desc []string
	for _, r := range script {
		desc = append(desc, fmt.Sprintf("b%d %s%s set=%q gap=%v", r.Browser, r.Host, r.Path, r.Set, r.Gap))
	}
	w.Sample = map[string]interface{}{"browsers": nB, "limit": limit, "script": desc}
	w.OnCheck(func() {
		for _, e := range w.K.Exits {
			w.Violation("crash", "node %s exited: %s", e.Node, e.Msg)
		}
		seen := map[string]int{}
		for i, b := range browsers {
			if b.sess != "" {
				if j, ok := seen[b.sess]; ok {
					w.Violation("session-cookie", "two clients were issued the same session cookie value | browsers %d and %d", j, i)
				}
				seen[b.sess] = i
			}
		}
	})
}
