package harness

import (
	"bufio"
	"bytes"
	"fmt"
	"net"
	"strings"
	"sync"
	"time"

	"verif/sim"
)

func init() { register("C14", worldC14) }

type c14Case struct {
	Method   string
	Target   string
	Accept   string
	FetchDst string
	FetchMod string
	Referer  string
	Status   int
	CType    string
	CDisp    string
	Body     []byte
	Pieces   []int
	Pause    time.Duration
	Extra    []hfield
	Interim  bool
	CEnc     string
	// HeadPause: the backend sends its header block at once but the first body
	// byte only this much later
	HeadPause time.Duration
}

const bannerHTML = `<b id="bnr">BANNER-7f3a</b>`

func (c *c14Case) isHTML() bool {
	return strings.Contains(c.CType, "text/html") || strings.Contains(c.CType, "application/xhtml+xml")
}

// framed reports whether the request says it is already inside the banner frame:
// the browser's fetch metadata, or a Referer naming the same host and path.
func (c *c14Case) framed() bool {
	if c.FetchDst == "iframe" || c.FetchMod == "nested-navigate" {
		return true
	}
	p := c.Target
	if i := strings.Index(p, "?"); i >= 0 {
		p = p[:i]
	}
	r := c.Referer
	if i := strings.Index(r, "?"); i >= 0 {
		r = r[:i]
	}
	return r == "http://example.test"+p
}

// bannerMay reports whether the statement allows the banner frame for this exchange.
func (c *c14Case) bannerMay() bool {
	return c.Method == "GET" && strings.Contains(c.Accept, "text/html") && c.Status == 200 && c.isHTML() && !strings.Contains(c.CDisp, "attachment")
}

func genC14(t *sim.Tape, i int) *c14Case {
	c := &c14Case{}
	c.Method = []string{"GET", "GET", "GET", "POST", "PUT"}[t.Choice(5, "method")]
	c.Target = fmt.Sprintf("%s/m%03d%s", []string{"/doc", "/doc", "/doc", "/doc//sub", "/doc/./x"}[t.Choice(5, "dir")], i, []string{"", "?a=1&b=two", "?q=%3Chead%3E"}[t.Choice(3, "query")])
	c.Accept = []string{"text/html,application/xhtml+xml,application/xml;q=0.9,*/*;q=0.8", "text/html", "*/*", "application/json", ""}[t.Pick("accept", 4, 2, 2, 1, 1)]
	c.FetchDst = []string{"", "document", "iframe", "empty"}[t.Pick("fetchdest", 4, 2, 1, 1)]
	c.FetchMod = []string{"", "navigate", "nested-navigate", "cors"}[t.Pick("fetchmode", 4, 2, 1, 1)]
	pathOnly := c.Target
	if i := strings.Index(pathOnly, "?"); i >= 0 {
		pathOnly = pathOnly[:i]
	}
	c.Referer = []string{"", "http://example.test" + c.Target, "http://example.test/elsewhere", "http://other.test" + c.Target, "http://example.test" + pathOnly + "?page=2", "http://example.test" + pathOnly}[t.Pick("referer", 4, 1, 1, 1, 1, 1)]
	c.Status = []int{200, 200, 200, 404, 500, 302, 201}[t.Choice(7, "status")]
	c.CType = []string{"text/html", "text/html; charset=utf-8", "application/xhtml+xml", "application/json", "text/plain", "image/png", "text/css", "application/javascript", "application/octet-stream", ""}[t.Pick("ctype", 4, 3, 1, 2, 2, 1, 1, 1, 1, 1)]
	c.CDisp = []string{"", "", "inline", "attachment; filename=\"x.html\"", "attachment", "attachment; filename=q3 report.html", "attachment;; filename=\"q3.html\"", "attachment; filename=r\xc3\xa9sum\xc3\xa9.html", "ATTACHMENT; filename=x"}[t.Choice(9, "cdisp")]
	// the body: where <head> sits relative to the first kilobyte and to the write boundaries
	pre := []int{0, 6, 15, 1010, 1018, 1019, 1023, 1024, 1030, 3000}[t.Choice(10, "headoffset")]
	var b bytes.Buffer
	b.WriteString("<!doctype html><html>"[:min(pre, 21)])
	for b.Len() < pre {
		b.WriteByte("abcdefghij \n"[b.Len()%12])
	}
	switch t.Pick("headkind", 5, 2, 1, 1) {
	case 0:
		b.WriteString("<head><title>t</title></head>")
	case 1:
		b.WriteString("<head><title>t</title></head><body><head>second</head>")
	case 2:
		// no <head> at all
		b.WriteString("<HEAD><title>upper</title></HEAD>")
	case 3:
		b.WriteString("<head")
	}
	tail := []int{0, 10, 500, 5000, 40000}[t.Choice(5, "tail")]
	for i := 0; i < tail; i++ {
		b.WriteByte("0123456789<>/\n"[i%14])
	}
	c.Body = b.Bytes()
	np := t.Range(0, 4, "npieces")
	for i := 0; i < np; i++ {
		c.Pieces = append(c.Pieces, []int{1, 3, 8, pre + 2, pre + 6, 1024, 1025}[t.Choice(7, "piece")])
	}
	c.Pause = []time.Duration{0, time.Millisecond, 150 * time.Millisecond}[t.Choice(3, "pause")]
	c.Extra = []hfield{{"X-Custom", "keep-me"}, {"Set-Cookie", "a=1"}, {"Set-Cookie", "b=2"}}
	c.Interim = t.Rare(1, 5, "interim")
	c.HeadPause = []time.Duration{0, 0, 0, 2500 * time.Millisecond}[t.Choice(4, "headpause")]
	// the body may be declared as encoded (the bytes are opaque to the agent)
	c.CEnc = []string{"", "", "", "gzip", "br"}[t.Choice(5, "cenc")]
	if c.CEnc != "" {
		c.Extra = append(c.Extra, hfield{"Content-Encoding", c.CEnc})
	}
	if t.Rare(1, 3, "cachehdr") {
		c.Extra = append(c.Extra, hfield{"Cache-Control", "max-age=3600"}, hfield{"X-Frame-Options", "DENY"})
	}
	return c
}

// worldC14: banner and shim-script injection against the backend's own response.
func worldC14(w *World) {
	t := w.T
	w.K.ChaosMult = []int{2, 1, 4}[t.Choice(3, "chaos")]
	w.K.SegmentPct = []int{0, 30, 80}[t.Choice(3, "segpct")]
	cfg := t.Choice(3, "features") // 0 banner, 1 shim script, 2 both
	banner := cfg == 0 || cfg == 2
	shim := cfg == 1 || cfg == 2
	n := t.Range(1, 4, "requests")
	cases := make([]*c14Case, n)
	for i := range cases {
		cases[i] = genC14(t, i)
	}
	// two navigations to the same path with different queries (the frame of each
	// must embed its own URL)
	if n >= 2 && t.Rare(1, 3, "same-path-twins") {
		p0 := cases[0].Target
		if i := strings.Index(p0, "?"); i >= 0 {
			p0 = p0[:i]
		}
		cases[0].Target = p0 + "?doc=alice"
		cases[1].Target = p0 + "?doc=bob&twin=001"
		for _, c := range cases[:2] {
			c.Method, c.Accept, c.Status, c.CType, c.CDisp = "GET", "text/html", 200, "text/html", ""
			c.FetchDst, c.FetchMod, c.Referer = "", "", ""
		}
		w.Probe("two_navigations_to_one_path_with_different_queries")
	}
	startProxy(w)
	rb := &rawBackend{}
	rb.Respond = func(c net.Conn, req *wireMsg, k int) bool {
		parts := strings.SplitN(req.StartLine, " ", 3)
		idx := -1
		if len(parts) == 3 {
			if j := strings.Index(parts[1], "/m"); j >= 0 {
				fmt.Sscanf(parts[1][j:], "/m%03d", &idx)
			}
			if j := strings.Index(parts[1], "twin="); j >= 0 {
				fmt.Sscanf(parts[1][j:], "twin=%03d", &idx)
			}
		}
		if idx < 0 || idx >= n {
			fmt.Fprintf(c, "HTTP/1.1 404 Not Found\r\nContent-Length: 0\r\n\r\n")
			return true
		}
		cs := cases[idx]
		var b bytes.Buffer
		if cs.Interim {
			fmt.Fprintf(c, "HTTP/1.1 103 Early Hints\r\nLink: </style.css>; rel=preload\r\n\r\n")
			if cs.Pause > 0 {
				time.Sleep(cs.Pause)
			}
		}
		fmt.Fprintf(&b, "HTTP/1.1 %d X\r\n", cs.Status)
		if cs.CType != "" {
			fmt.Fprintf(&b, "Content-Type: %s\r\n", cs.CType)
		}
		if cs.CDisp != "" {
			fmt.Fprintf(&b, "Content-Disposition: %s\r\n", cs.CDisp)
		}
		for _, f := range cs.Extra {
			fmt.Fprintf(&b, "%s: %s\r\n", f.Name, f.Value)
		}
		fmt.Fprintf(&b, "Content-Length: %d\r\n\r\n", len(cs.Body))
		c.Write(b.Bytes())
		if cs.HeadPause > 0 {
			time.Sleep(cs.HeadPause)
		}
		off := 0
		for _, p := range cs.Pieces {
			if off >= len(cs.Body) {
				break
			}
			if off+p > len(cs.Body) {
				p = len(cs.Body) - off
			}
			c.Write(cs.Body[off : off+p])
			off += p
			if cs.Pause > 0 {
				time.Sleep(cs.Pause)
			}
		}
		if off < len(cs.Body) {
			c.Write(cs.Body[off:])
		}
		return true
	}
	startRawBackend(w, rb)
	var args []string
	if banner {
		args = append(args, "-inject-banner="+bannerHTML, "-banner-height=33px")
	}
	if shim {
		args = append(args, "-shim-websockets", "-shim-path=shim")
	}
	startAgent(w, args...)
	var wg sync.WaitGroup
	type result struct {
		msg *wireMsg
		err string
	}
	results := make([]result, n)
	for i, cs := range cases {
		i, cs := i, cs
		wg.Add(1)
		w.K.Spawn(fmt.Sprintf("client%d", i), func() {
			defer wg.Done()
			c, err := sim.Dial("tcp", "proxy:80")
			if err != nil {
				results[i].err = err.Error()
				return
			}
			defer c.Close()
			var b bytes.Buffer
			fmt.Fprintf(&b, "%s %s HTTP/1.1\r\nHost: example.test\r\nAccept-Encoding: identity\r\nConnection: close\r\n", cs.Method, cs.Target)
			if cs.Accept != "" {
				fmt.Fprintf(&b, "Accept: %s\r\n", cs.Accept)
			}
			if cs.FetchDst != "" {
				fmt.Fprintf(&b, "Sec-Fetch-Dest: %s\r\n", cs.FetchDst)
			}
			if cs.FetchMod != "" {
				fmt.Fprintf(&b, "Sec-Fetch-Mode: %s\r\n", cs.FetchMod)
			}
			if cs.Referer != "" {
				fmt.Fprintf(&b, "Referer: %s\r\n", cs.Referer)
			}
			if cs.Method != "GET" {
				b.WriteString("Content-Length: 0\r\n")
			}
			b.WriteString("\r\n")
			c.Write(b.Bytes())
			m, err := readWireMessage(bufio.NewReader(c), true, false)
			results[i].msg = m
			if err != nil {
				results[i].err = err.Error()
			}
		})
	}
	w.K.Spawn("controller", func() {
		wg.Wait()
		w.K.Stop()
	})
	c0 := cases[0]
	w.Sample = map[string]interface{}{"banner": banner, "shim_script": shim, "requests": n, "first": fmt.Sprintf("%s %s accept=%q dest=%q mode=%q referer=%q -> %d %q disp=%q body=%d pieces=%v", c0.Method, c0.Target, c0.Accept, c0.FetchDst, c0.FetchMod, c0.Referer, c0.Status, c0.CType, c0.CDisp, len(c0.Body), c0.Pieces)}
	w.OnCheck(func() {
		for _, e := range w.K.Exits {
			w.Violation("crash", "node %s exited: %s", e.Node, e.Msg)
		}
		for i, cs := range cases {
			r := results[i]
			if r.msg == nil || r.err != "" {
				w.Violation("progress", "the client did not receive a complete response | case %d: %s", i, r.err)
				continue
			}
			m := r.msg
			var code int
			fmt.Sscanf(m.StartLine, "HTTP/1.1 %d", &code)
			if cs.Interim {
				w.Probe("interim_1xx")
			}
			if cs.HeadPause > 0 && cs.isHTML() {
				w.Probe("html_body_starts_late")
			}
			if code != cs.Status {
				w.Violation("status", "status changed | backend %d client %d (interim 1xx before it: %v)", cs.Status, code, cs.Interim)
				continue
			}
			recv := fieldLists(m.Fields)
			// classify what the client got
			withScript, scriptOK := splitScript(cs.Body, m.Body)
			switch {
			case bytes.Equal(m.Body, cs.Body):
				// unaltered body: it is only the original if it is still declared
				// to be encoded the way the backend encoded it
				if ce := strings.Join(recv["content-encoding"], ","); ce != cs.CEnc {
					w.Violation("header", "the original body was passed on but its Content-Encoding was changed | backend %q client %q (%s accept=%q dest=%q mode=%q -> %d %q)", cs.CEnc, ce, cs.Method, cs.Accept, cs.FetchDst, cs.FetchMod, cs.Status, cs.CType)
				}
				if cs.CEnc != "" {
					w.Probe("encoded_body_passed_through")
				}
			case withScript:
				w.Probe("shim_script_injected")
				if !shim {
					w.Violation("script", "a script was inserted although shim-script injection is off")
				}
				if !strings.Contains(strings.ToLower(cs.CType), "html") {
					w.Violation("script", "the shim script was injected into a response that is not an HTML document | Content-Type %q", cs.CType)
				}
				if !scriptOK {
					w.Violation("script", "the body is not the original with one script inserted immediately after the first <head> | case %d", i)
				}
			default:
				// must be the banner frame page
				isFrame := bytes.Contains(m.Body, []byte(bannerHTML))
				if !isFrame {
					w.Violation("body", "the body of a response was altered and is neither the original, the original with the shim script, nor the banner frame | case %d: %s %s -> %d %q, got %d bytes want %d", i, cs.Method, cs.Target, cs.Status, cs.CType, len(m.Body), len(cs.Body))
					continue
				}
				w.Probe("banner_frame_served")
				if !banner {
					w.Violation("banner", "a banner frame was served although banner injection is off")
				}
				if !cs.bannerMay() {
					w.Violation("banner", "the banner frame replaced a response that is not a 200 non-attachment HTML reply to a GET accepting text/html | %s accept=%q -> %d %q disp=%q", cs.Method, cs.Accept, cs.Status, cs.CType, cs.CDisp)
				}
				if cs.framed() {
					w.Violation("banner", "a request that is already framed got the banner frame instead of the original body | dest=%q mode=%q referer=%q", cs.FetchDst, cs.FetchMod, cs.Referer)
				}
				if !bytes.Contains(m.Body, []byte(cs.Target)) {
					w.Violation("banner", "the banner frame does not embed the requested URL | %q", cs.Target)
				}
				cc := strings.ToLower(strings.Join(recv["cache-control"], ","))
				if !strings.Contains(cc, "no-store") && !strings.Contains(cc, "no-cache") {
					w.Violation("banner", "the banner frame is not marked uncacheable | Cache-Control %q", recv["cache-control"])
				}
				if xf := recv["x-frame-options"]; len(xf) != 1 || !strings.EqualFold(xf[0], "sameorigin") {
					w.Violation("banner", "the banner frame is not marked same-origin-frameable | X-Frame-Options %q", xf)
				}
				continue
			}
			// body is original (possibly with script): for non-HTML responses the
			// end-to-end headers must be unchanged as well
			if !cs.isHTML() && !strings.Contains(strings.ToLower(cs.CType), "html") {
				if !bytes.Equal(m.Body, cs.Body) {
					w.Violation("body", "a non-HTML response was altered | Content-Type %q", cs.CType)
				}
				sent := []hfield{}
				if cs.CType != "" {
					sent = append(sent, hfield{"Content-Type", cs.CType})
				}
				if cs.CDisp != "" {
					sent = append(sent, hfield{"Content-Disposition", cs.CDisp})
				}
				sent = append(sent, cs.Extra...)
				for name, vals := range fieldLists(sent) {
					if !equalStrings(vals, recv[name]) {
						w.Violation("header", "an end-to-end header of a non-HTML response was changed | %q backend %q client %q", name, vals, recv[name])
					}
				}
				w.Probe("non_html_untouched")
			}
			if cs.bannerMay() && banner && cs.framed() {
				w.Probe("already_framed_original_body")
			}
			if i := bytes.Index(cs.Body, []byte("<head>")); i >= 1018 && i <= 1023 {
				w.Probe("head_straddles_first_kilobyte")
			}
		}
	})
}

// splitScript reports whether got is orig with something inserted right after
// the first "<head>" (ok = exactly that and the insertion looks like one script).
func splitScript(orig, got []byte) (inserted, ok bool) {
	if len(got) <= len(orig) {
		return false, false
	}
	// longest common prefix / suffix
	p := 0
	for p < len(orig) && orig[p] == got[p] {
		p++
	}
	s := 0
	for s < len(orig)-p && orig[len(orig)-1-s] == got[len(got)-1-s] {
		s++
	}
	if p+s < len(orig) {
		return false, false // not a pure insertion
	}
	if !bytes.Contains(got, []byte("<script")) {
		return false, false
	}
	i := bytes.Index(orig, []byte("<head>"))
	if i < 0 {
		return true, false
	}
	at := i + 6
	x := len(got) - len(orig)
	if !(bytes.Equal(got[:at], orig[:at]) && bytes.Equal(got[at+x:], orig[at:])) {
		return true, false
	}
	ins := got[at : at+x]
	if bytes.Count(ins, []byte("<script")) != 1 {
		return true, false
	}
	return true, true
}
