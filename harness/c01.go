package harness

import (
	"bytes"
	"crypto/sha256"
	"encoding/hex"
	"fmt"
	"io"
	"net/http"
	"strconv"
	"strings"
	"sync"
	"time"

	agentmain "github.com/google/inverting-proxy/agent"
	servermain "github.com/google/inverting-proxy/server"

	"verif/sim"
)

// ---- shared world pieces -------------------------------------------------

func startProxy(w *World) {
	sim.SetArgs("server", "-port=80")
	w.K.Spawn("proxy", servermain.Main)
}

func startAgent(w *World, extra ...string) {
	args := append([]string{"-proxy=http://proxy:80/", "-backend=b1", "-host=localhost:8080"}, extra...)
	sim.SetArgs("agent", args...)
	w.K.Spawn("agenthost", agentmain.Main)
}

// tokenBody expands a token into n deterministic bytes.
func tokenBody(tok string, n int) []byte {
	out := make([]byte, 0, n+32)
	ctr := 0
	for len(out) < n {
		h := sha256.Sum256([]byte(tok + "#" + strconv.Itoa(ctr)))
		out = append(out, []byte(hex.EncodeToString(h[:]))...)
		ctr++
	}
	return out[:n]
}

func sha(b []byte) string {
	h := sha256.Sum256(b)
	return hex.EncodeToString(h[:8])
}

func c01Status(tok string) int {
	if len(tok) > 5 && tok[5] >= '0' && tok[5] <= '9' {
		return []int{200, 201, 202, 203, 206, 207, 208, 226, 250, 299}[tok[5]-'0']
	}
	return 200
}

// ---- C01 -----------------------------------------------------------------

type c01Client struct {
	tok      string
	method   string
	reqSize  int
	respSize int
	latMs    int
	abort    bool
	mayFail  bool
	// quit: a raw client that reads the response head and a little of a large body
	// and then hangs up (the proxy's write to it fails); slowRead: reads the body in
	// small pieces with pauses, so that the proxy's writes to it block
	quit     bool
	slowRead bool
	// trMode: how the backend sends its trailers for this request: 0 announced,
	// 1 not announced (plus a second unannounced one), 2 no trailers at all
	trMode  int
	trOwner string
	trExtra int

	done    bool
	err     string
	status  int
	hdrTok  string
	trTok   string
	bodyOK  bool
	bodyLen int
	bodyTok string
}

func init() { register("C01", worldC01) }

func worldC01(w *World) {
	t := w.T
	faulty := w.Cfg == "faulty" || w.Cfg == "restart"
	restart := w.Cfg == "restart"
	nMax := 8
	if w.Tier == "thorough" {
		nMax = 48
	}
	n := t.Range(2, nMax, "clients")
	w.K.ChaosMult = []int{2, 1, 4, 16}[t.Choice(4, "chaos")]
	w.K.LatencyMenu = [][]time.Duration{{0}, {0, time.Millisecond, 20 * time.Millisecond}, {0, 0, 300 * time.Millisecond}}[t.Choice(3, "latprofile")]
	w.K.SegmentPct = []int{0, 10, 50}[t.Choice(3, "segpct")]
	sizes := []int{0, 1, 10, 4095, 4096, 4097, 32 << 10, 100 << 10}
	if w.Tier == "thorough" {
		sizes = append(sizes, 1<<20, 3<<20)
	}
	// some clients send several requests one after the other on a kept-alive connection
	extra := 0
	owner := make([]int, 0, n+8)
	for i := 0; i < n; i++ {
		owner = append(owner, i)
		if extra < 8 && t.Rare(1, 4, "keepalive-followup") {
			owner = append(owner, i)
			extra++
		}
	}
	clients := make([]*c01Client, len(owner))
	for i := range clients {
		c := &c01Client{tok: fmt.Sprintf("tok%03d-%d", i, t.Choice(1000, "tokrand"))}
		c.method = []string{"GET", "POST", "PUT"}[t.Choice(3, "method")]
		if c.method != "GET" {
			c.reqSize = sizes[t.Choice(len(sizes), "reqsize")]
		}
		c.respSize = sizes[t.Choice(len(sizes), "respsize")]
		c.latMs = []int{0, 0, 1, 50, 2000}[t.Choice(5, "backendlat")]
		c.trMode = t.Pick("trailermode", 3, 1, 1)
		if faulty {
			c.abort = t.Rare(1, 4, "abort?")
		}
		if restart {
			c.abort = false
			c.mayFail = true // in flight when the proxy is killed
			c.latMs = []int{0, 50, 2000, 4000}[t.Choice(4, "backendlat2")]
		}
		clients[i] = c
	}
	// restart leg: the proxy process is killed and started again behind the same
	// address while the agent keeps running; then new clients arrive
	var later []*c01Client
	crashAt := []time.Duration{50 * time.Millisecond, 500 * time.Millisecond, 2500 * time.Millisecond}[t.Choice(3, "crashat")]
	downFor := []time.Duration{0, 100 * time.Millisecond, 2 * time.Second}[t.Choice(3, "downfor")]
	if restart {
		nl := t.Range(1, 4, "laterclients")
		for i := 0; i < nl; i++ {
			c := &c01Client{tok: fmt.Sprintf("late%02d-%d", i, t.Choice(1000, "tokrand"))}
			c.method = []string{"GET", "POST"}[t.Choice(2, "method")]
			if c.method != "GET" {
				c.reqSize = sizes[t.Choice(len(sizes), "reqsize")]
			}
			c.respSize = sizes[t.Choice(len(sizes), "respsize")]
			c.trMode = t.Pick("trailermode", 3, 1, 1)
			later = append(later, c)
		}
		clients = append(clients, later...)
	}
	// clients that hang up in the middle of a large response come first; everybody
	// else starts once they are gone, some of them reading slowly
	var quitters []*c01Client
	if faulty && !restart && t.Rare(1, 3, "quitters") {
		nq := t.Range(1, 3, "nquitters")
		for i := 0; i < nq; i++ {
			quitters = append(quitters, &c01Client{tok: fmt.Sprintf("quit%02d-%d", i, t.Choice(1000, "tokrand")), method: "GET", respSize: []int{100 << 10, 300 << 10}[t.Choice(2, "quitsize")], quit: true, mayFail: true, trMode: 2})
		}
		for _, c := range clients {
			c.slowRead = t.Rare(1, 2, "slowread")
		}
		clients = append(clients, quitters...)
		w.Probe("clients_hang_up_mid_response_before_the_others_start")
	}
	var seenMu sync.Mutex
	seen := map[string]int{}

	startProxy(w)
	// backend: echoes a function of the token it saw
	w.K.Spawn("agenthost", func() {
		l, err := sim.Listen("tcp", ":8080")
		if err != nil {
			panic(err)
		}
		http.Serve(l, http.HandlerFunc(func(rw http.ResponseWriter, r *http.Request) {
			tok := r.Header.Get("X-Token")
			body, _ := io.ReadAll(r.Body)
			seenMu.Lock()
			seen[tok]++
			seenMu.Unlock()
			qtok := r.URL.Query().Get("t")
			ptok := strings.TrimPrefix(r.URL.Path, "/p/")
			want, _ := strconv.Atoi(r.Header.Get("X-Resp-Size"))
			lat, _ := strconv.Atoi(r.Header.Get("X-Lat-Ms"))
			if lat > 0 {
				time.Sleep(time.Duration(lat) * time.Millisecond)
			}
			mixed := tok
			if qtok != tok || ptok != tok {
				mixed = "MIXED(" + tok + "," + qtok + "," + ptok + ")"
			}
			if !bytes.Equal(body, tokenBody(tok+"/req", len(body))) {
				mixed = "BODYMIX(" + tok + ")"
			}
			rw.Header().Set("X-Echo-Token", mixed)
			rw.Header().Set("X-Req-Len", strconv.Itoa(len(body)))
			switch r.Header.Get("X-Trailer-Mode") {
			case "1":
				rw.WriteHeader(c01Status(tok))
				rw.(http.Flusher).Flush() // chunked framing, so that trailers can follow
				rw.Write(tokenBody(mixed+"/resp", want))
				rw.Header().Set(http.TrailerPrefix+"X-Trailer-Token", mixed)
				rw.Header().Set(http.TrailerPrefix+"X-Trailer-Owner", mixed)
			case "2":
				rw.WriteHeader(c01Status(tok))
				rw.Write(tokenBody(mixed+"/resp", want))
			default:
				rw.Header().Set("Trailer", "X-Trailer-Token")
				rw.WriteHeader(c01Status(tok))
				rw.Write(tokenBody(mixed+"/resp", want))
				rw.Header().Set("X-Trailer-Token", mixed)
			}
		}))
	})
	startAgent(w)

	var wg sync.WaitGroup
	byOwner := map[int][]*c01Client{}
	for i, c := range clients[:len(owner)] {
		byOwner[owner[i]] = append(byOwner[owner[i]], c)
	}
	var qwg sync.WaitGroup
	for qi, q := range quitters {
		q := q
		qwg.Add(1)
		w.K.Spawn(fmt.Sprintf("quitter%d", qi), func() {
			defer qwg.Done()
			c01Do(w, nil, q, clients)
		})
	}
	for oi := 0; oi < n; oi++ {
		group := byOwner[oi]
		wg.Add(1)
		w.K.Spawn(fmt.Sprintf("client%d", oi), func() {
			defer wg.Done()
			if len(quitters) > 0 {
				qwg.Wait()
				time.Sleep(100 * time.Millisecond)
			}
			cl := w.Client()
			for _, c := range group {
				c01Do(w, cl, c, clients)
				if len(group) > 1 {
					w.Probe("keepalive_followup_request")
				}
			}
		})
	}
	var lwg sync.WaitGroup
	if restart {
		lwg.Add(1)
		w.K.Spawn("operator", func() {
			defer lwg.Done()
			time.Sleep(crashAt)
			w.K.Crash("proxy")
			w.K.Count("fault.proxy_killed_and_restarted")
			time.Sleep(downFor)
			startProxy(w)
			time.Sleep(200 * time.Millisecond)
			var cw sync.WaitGroup
			for _, c := range later {
				c := c
				cw.Add(1)
				go func() {
					defer cw.Done()
					c01Do(w, w.Client(), c, clients)
				}()
			}
			cw.Wait()
			w.Probe("requests_after_proxy_restart")
		})
	}
	w.K.Spawn("controller", func() {
		wg.Wait()
		lwg.Wait()
		w.K.Stop()
	})
	c01Finish(w, n, faulty, clients, seen)
}

// c01Do sends one client request and records what came back.
func c01Do(w *World, cl *http.Client, c *c01Client, clients []*c01Client) {
	if c.quit {
		conn, err := sim.Dial("tcp", "proxy:80")
		if err != nil {
			c.err, c.done = err.Error(), true
			return
		}
		fmt.Fprintf(conn, "GET /p/%s?t=%s HTTP/1.1\r\nHost: proxy\r\nX-Token: %s\r\nX-Resp-Size: %d\r\nX-Lat-Ms: 0\r\nX-Trailer-Mode: 2\r\n\r\n", c.tok, c.tok, c.tok, c.respSize)
		buf := make([]byte, 4096)
		got := 0
		for got < 8192 {
			n, err := conn.Read(buf)
			got += n
			if err != nil {
				break
			}
		}
		// let the proxy run into the full socket buffer, then hang up with data unread
		time.Sleep(300 * time.Millisecond)
		conn.Close()
		time.Sleep(300 * time.Millisecond)
		c.err, c.done = "hung up", true
		w.K.Count("fault.client_hangs_up_mid_response")
		return
	}
	{
		{
			var body io.Reader
			if c.reqSize > 0 || c.method != "GET" {
				body = bytes.NewReader(tokenBody(c.tok+"/req", c.reqSize))
			}
			req, _ := http.NewRequest(c.method, "http://proxy:80/p/"+c.tok+"?t="+c.tok, body)
			req.Header.Set("X-Token", c.tok)
			req.Header.Set("X-Resp-Size", strconv.Itoa(c.respSize))
			req.Header.Set("X-Lat-Ms", strconv.Itoa(c.latMs))
			req.Header.Set("X-Trailer-Mode", strconv.Itoa(c.trMode))
			cl.Timeout = 0
			if c.abort {
				cl.Timeout = time.Duration(1+len(c.tok)%3) * 500 * time.Millisecond
			}
			resp, err := cl.Do(req)
			if err != nil {
				c.err = err.Error()
				c.done = true
				return
			}
			var rbody io.Reader = resp.Body
			if c.slowRead {
				rbody = &slowReader{r: resp.Body}
			}
			b, err := io.ReadAll(rbody)
			resp.Body.Close()
			if err != nil {
				c.err = "body: " + err.Error()
			}
			c.status = resp.StatusCode
			c.hdrTok = resp.Header.Get("X-Echo-Token")
			c.trTok = resp.Trailer.Get("X-Trailer-Token")
			c.trOwner = resp.Trailer.Get("X-Trailer-Owner")
			c.trExtra = len(resp.Trailer)
			c.bodyLen = len(b)
			c.bodyOK = bytes.Equal(b, tokenBody(c.tok+"/resp", c.respSize))
			if !c.bodyOK && len(b) >= 0 {
				// whose body is it?
				for _, o := range clients {
					if o != c && len(b) > 0 && bytes.Equal(b, tokenBody(o.tok+"/resp", len(b))) {
						c.bodyTok = o.tok
					}
				}
			}
			c.done = true
		}
	}
}

// slowReader reads at most 8 KiB at a time and pauses now and then.
type slowReader struct {
	r io.Reader
	n int
}

func (s *slowReader) Read(p []byte) (int, error) {
	if len(p) > 8192 {
		p = p[:8192]
	}
	s.n++
	if s.n%3 == 0 {
		time.Sleep(20 * time.Millisecond)
	}
	return s.r.Read(p)
}

func c01Finish(w *World, n int, faulty bool, clients []*c01Client, seen map[string]int) {
	w.Sample = map[string]interface{}{"clients": n, "chaos": w.K.ChaosMult, "segpct": w.K.SegmentPct, "first": fmt.Sprintf("%s %s req=%d resp=%d lat=%dms abort=%v", clients[0].method, clients[0].tok, clients[0].reqSize, clients[0].respSize, clients[0].latMs, clients[0].abort)}

	w.OnCheck(func() {
		for _, e := range w.K.Exits {
			if e.Msg == sim.HarnessKill {
				continue
			}
			w.Violation("crash", "node %s exited: %s", e.Node, e.Msg)
		}
		for _, c := range clients {
			if !c.done {
				if !faulty {
					w.Violation("progress", "client %s got no response within the horizon", c.tok)
				}
				continue
			}
			if c.err != "" {
				if !c.abort && !c.mayFail {
					w.Violation("progress", "client %s failed: %s", c.tok, c.err)
				}
				continue
			}
			wantSt := c01Status(c.tok)
			if c.hdrTok != c.tok {
				w.Violation("correlation", "client %s received header of %q", c.tok, c.hdrTok)
			}
			if c.status != wantSt {
				w.Violation("correlation", "client %s received status %d want %d", c.tok, c.status, wantSt)
			}
			if !c.bodyOK {
				w.Violation("correlation", "client %s received a body (len %d, want %d) that is not its own (owner %q)", c.tok, c.bodyLen, c.respSize, c.bodyTok)
			}
			wantTr := c.tok
			if c.trMode == 2 {
				wantTr = ""
			}
			if c.trTok != wantTr {
				w.Violation("correlation", "client %s received trailer of %q", c.tok, c.trTok)
			}
			if c.trOwner != "" && c.trOwner != c.tok {
				w.Violation("correlation", "client %s received a trailer produced for another request | %q", c.tok, c.trOwner)
			}
			if c.trMode == 2 && c.trExtra > 0 {
				w.Violation("correlation", "client %s received trailers although the backend sent none for its request | %d trailer fields (other requests of this run carried unannounced trailers)", c.tok, c.trExtra)
			}
			if c.trMode == 1 {
				w.Probe("unannounced_trailers")
			}
		}
		for tok, cnt := range seen {
			resent := false
			for _, c := range clients {
				if c.tok == tok && c.mayFail {
					resent = true // the client's own HTTP stack may re-send a request whose connection died with the old proxy
				}
			}
			if cnt > 1 && !resent {
				w.Violation("at-most-once", "backend saw token %s %d times", tok, cnt)
			}
		}
		if !faulty {
			for _, c := range clients {
				if seen[c.tok] != 1 {
					w.Violation("exactly-once", "backend saw token %s %d times", c.tok, seen[c.tok])
				}
			}
		}
		if n >= 2 {
			w.Probe("concurrent_clients")
		}
	})
}
