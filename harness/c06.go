package harness

import (
	"bufio"
	"bytes"
	"fmt"
	"io"
	"net"
	"net/http"
	"runtime"
	"strconv"
	"strings"
	"sync"
	"time"

	"verif/sim"
)

func init() { register("C06", worldC06) }

// ---- a byte-level fake proxy -------------------------------------------------

type upFault struct {
	Kind   string // none, 5xx, reset, close
	At     int    // offset in the raw request stream (head + chunked body) at which it fires; -1 = after the complete body
	Drain  bool   // 5xx only: keep reading the rest of the body after answering
	Linger time.Duration
	// Status, if not 0, replaces the 503 of a "5xx" fault (401: the proxy's front
	// end turns an identity token down)
	Status int
	// RetryAfter, if not empty, is sent as Retry-After with a 503
	RetryAfter string
}

type rawAttempt struct {
	ID       string
	N        int
	Fault    upFault
	FaultHit bool
	RawLen   int
	HeadLen  int
	Body     []byte // decoded (de-chunked) upload body as far as received
	Complete bool   // terminating chunk seen
	BadFrame string
	Acked    int // status the sink answered (0 = none)
	AckedAt  time.Duration
}

type rawProxy struct {
	w        *World
	mu       sync.Mutex
	listIDs  [][]string
	lists    int
	reqs     map[string][]byte
	faults   map[string][]upFault
	Attempts map[string][]*rawAttempt
}

func (p *rawProxy) start() {
	p.w.K.Spawn("proxy", func() {
		l, err := sim.Listen("tcp", ":80")
		if err != nil {
			panic(err)
		}
		for {
			c, err := l.Accept()
			if err != nil {
				return
			}
			go p.conn(c.(*sim.Conn))
		}
	})
}

func headerValue(head []byte, name string) string {
	for _, line := range strings.Split(string(head), "\r\n")[1:] {
		if i := strings.Index(line, ":"); i > 0 && strings.EqualFold(line[:i], name) {
			return strings.TrimSpace(line[i+1:])
		}
	}
	return ""
}

func (p *rawProxy) conn(c *sim.Conn) {
	defer c.Close()
	var buf []byte
	rd := make([]byte, 16<<10)
	fill := func() bool {
		n, err := c.Read(rd)
		buf = append(buf, rd[:n]...)
		return err == nil || n > 0
	}
	for {
		// read one request head
		var hi int
		for {
			hi = bytes.Index(buf, []byte("\r\n\r\n"))
			if hi >= 0 {
				break
			}
			if !fill() {
				return
			}
		}
		head := buf[:hi+4]
		id := headerValue(head, "X-Inverting-Proxy-Request-ID")
		if bytes.HasPrefix(head, []byte("GET ")) {
			buf = buf[hi+4:]
			if id == "" {
				p.mu.Lock()
				n := p.lists
				p.lists++
				var ids []string
				if n < len(p.listIDs) {
					ids = p.listIDs[n]
				}
				p.mu.Unlock()
				if n >= len(p.listIDs) {
					// long poll: never answer; wait for the peer to go away
					for fill() {
					}
					return
				}
				body := jsonList(ids)
				fmt.Fprintf(c, "HTTP/1.1 200 OK\r\nContent-Length: %d\r\n\r\n%s", len(body), body)
				continue
			}
			p.mu.Lock()
			raw := p.reqs[id]
			p.mu.Unlock()
			if raw == nil {
				fmt.Fprintf(c, "HTTP/1.1 404 Not Found\r\nContent-Length: 0\r\n\r\n")
				continue
			}
			fmt.Fprintf(c, "HTTP/1.1 200 OK\r\nX-Inverting-Proxy-Request-Start-Time: %s\r\nContent-Length: %d\r\n\r\n", time.Now().Format(time.RFC3339Nano), len(raw))
			c.Write(raw)
			continue
		}
		// POST: the upload sink
		p.mu.Lock()
		n := len(p.Attempts[id])
		at := &rawAttempt{ID: id, N: n, Fault: upFault{Kind: "none"}}
		if fs := p.faults[id]; n < len(fs) {
			at.Fault = fs[n]
		}
		p.Attempts[id] = append(p.Attempts[id], at)
		p.mu.Unlock()
		keep := p.sink(c, at, &buf, hi+4, fill)
		if !keep {
			return
		}
	}
}

// sink consumes one upload attempt from buf (+ further reads), applying the
// attempt's fault at its byte offset. It reports whether the connection can
// carry a further request.
func (p *rawProxy) sink(c *sim.Conn, at *rawAttempt, buf *[]byte, headLen int, fill func() bool) bool {
	at.HeadLen = headLen
	f := at.Fault
	faultAt := f.At
	if f.At == -2 {
		faultAt = headLen / 2 // inside the header block
	}
	if f.At <= -10 {
		faultAt = headLen + (-f.At - 10) // relative to the start of the body
	}
	consumed := 0 // raw bytes of this request processed so far
	dec := &chunkDecoder{}
	answered := false
	process := func(upto int) {
		// feed body bytes [consumed, upto) to the decoder
		if upto > consumed {
			lo := consumed
			if lo < headLen {
				lo = headLen
			}
			if upto > lo {
				dec.Feed((*buf)[lo:upto])
			}
			consumed = upto
		}
	}
	fire := func() (stop, keep bool) {
		at.FaultHit = true
		switch f.Kind {
		case "reset":
			p.w.K.Count("fault.upload_reset")
			c.Abort()
			return true, false
		case "close":
			p.w.K.Count("fault.upload_close")
			c.Close()
			return true, false
		case "5xx":
			if dec.Done {
				p.w.K.Count("fault.upload_5xx_after_body")
			} else {
				p.w.K.Count("fault.upload_5xx_while_streaming")
			}
			answered = true
			at.Acked = 503
			if f.Status != 0 {
				at.Acked = f.Status
				p.w.K.Count(fmt.Sprintf("fault.upload_%d", f.Status))
			}
			at.AckedAt = p.w.K.Now()
			ra := ""
			if f.RetryAfter != "" {
				ra = "Retry-After: " + f.RetryAfter + "\r\n"
			}
			if f.Drain {
				fmt.Fprintf(c, "HTTP/1.1 %d Injected\r\n%sContent-Length: 8\r\n\r\ninjected", at.Acked, ra)
				return false, true
			}
			fmt.Fprintf(c, "HTTP/1.1 %d Injected\r\n%sConnection: close\r\nContent-Length: 8\r\n\r\ninjected", at.Acked, ra)
			if f.Linger > 0 {
				time.Sleep(f.Linger)
			}
			c.Close()
			return true, false
		}
		return false, true
	}
	pending := f.Kind != "none"
	for {
		avail := len(*buf)
		limit := avail
		if pending && faultAt >= 0 && limit > faultAt {
			limit = faultAt
		}
		if limit < consumed {
			limit = consumed
		}
		process(limit)
		at.RawLen = consumed
		at.Body = dec.Body
		if dec.Bad != "" {
			at.BadFrame = dec.Bad
			c.Close()
			return false
		}
		if dec.Done {
			// leftover bytes belong to the next request on this connection
			rest := append([]byte(nil), dec.Leftover...)
			rest = append(rest, (*buf)[consumed:]...)
			at.RawLen = consumed - len(dec.Leftover)
			at.Complete = true
			*buf = rest
			if pending {
				// a fault positioned at or after the end of the body
				pending = false
				if stop, _ := fire(); stop {
					return false
				}
			}
			if !answered {
				at.Acked = 200
				at.AckedAt = p.w.K.Now()
				fmt.Fprintf(c, "HTTP/1.1 200 OK\r\nContent-Length: 0\r\n\r\n")
			}
			return true
		}
		if pending && faultAt >= 0 && consumed >= faultAt {
			pending = false
			if stop, _ := fire(); stop {
				return false
			}
			continue
		}
		if avail > consumed {
			continue
		}
		if !fill() {
			return false
		}
	}
}

// chunkDecoder decodes a chunked body incrementally.
type chunkDecoder struct {
	state    int
	line     []byte
	remain   int
	Body     []byte
	Done     bool
	Bad      string
	Leftover []byte
}

func (d *chunkDecoder) Feed(p []byte) {
	for len(p) > 0 {
		if d.Done {
			d.Leftover = append(d.Leftover, p...)
			return
		}
		switch d.state {
		case 0: // size line
			c := p[0]
			p = p[1:]
			if c != '\n' {
				d.line = append(d.line, c)
				if len(d.line) > 64 {
					d.Bad = "overlong chunk-size line"
					d.Done = true
				}
				continue
			}
			s := strings.TrimRight(string(d.line), "\r")
			d.line = d.line[:0]
			n, err := strconv.ParseUint(s, 16, 31)
			if err != nil {
				d.Bad = "bad chunk-size line " + strconv.Quote(s)
				d.Done = true
				continue
			}
			if n == 0 {
				d.state = 3
				continue
			}
			d.remain = int(n)
			d.state = 1
		case 1:
			n := len(p)
			if n > d.remain {
				n = d.remain
			}
			d.Body = append(d.Body, p[:n]...)
			d.remain -= n
			p = p[n:]
			if d.remain == 0 {
				d.state = 2
				d.remain = 2
			}
		case 2: // CRLF after chunk data
			want := "\r\n"[2-d.remain]
			if p[0] != want {
				d.Bad = "missing CRLF after chunk data"
				d.Done = true
				continue
			}
			p = p[1:]
			d.remain--
			if d.remain == 0 {
				d.state = 0
			}
		case 3: // trailer section: lines until an empty line
			c := p[0]
			p = p[1:]
			if c != '\n' {
				d.line = append(d.line, c)
				continue
			}
			s := strings.TrimRight(string(d.line), "\r")
			d.line = d.line[:0]
			if s == "" {
				d.Done = true
			}
		}
	}
}

// ---- the world -----------------------------------------------------------------

func worldC06(w *World) {
	t := w.T
	faultFree := w.Cfg == "nofault"
	w.K.ChaosMult = []int{2, 1, 4}[t.Choice(3, "chaos")]
	w.K.LatencyMenu = [][]time.Duration{{0}, {0, time.Millisecond}, {5 * time.Millisecond}}[t.Choice(3, "latprofile")]
	w.K.SegmentPct = []int{0, 30}[t.Choice(2, "segpct")]
	w.K.SendBuf = []int{64 << 10, 4 << 10, 512}[t.Choice(3, "sendbuf")]
	// the agent may run on a VM: its client to the proxy then adds the VM's identity
	// token, fetched from the metadata server (a different token every time), and the
	// proxy's front end may turn a token down with 401
	gce := !faultFree && t.Rare(1, 4, "gce")
	if gce {
		var tokMu sync.Mutex
		tokN := 0
		sim.GCE.On = true
		sim.GCE.Get = func(path string) (string, error) {
			if strings.Contains(path, "/identity") {
				tokMu.Lock()
				tokN++
				n := tokN
				tokMu.Unlock()
				return fmt.Sprintf("vm-identity-token-%d", n), nil
			}
			return "sa@project.iam.gserviceaccount.example", nil
		}
		w.Probe("agent_on_a_vm")
	}
	nReq := t.Range(1, 3, "requests")
	rp := &rawProxy{w: w, reqs: map[string][]byte{}, faults: map[string][]upFault{}, Attempts: map[string][]*rawAttempt{}}
	type breq struct {
		id     string
		size   int
		status int
		slow   bool
		delay  time.Duration
	}
	var reqs []*breq
	var ids []string
	for i := 0; i < nReq; i++ {
		r := &breq{id: fmt.Sprintf("u%02d", i)}
		// sizes chosen so that the serialised upload lands around the 4096-byte replay buffer
		switch t.Pick("sizeclass", 2, 4, 1, 2, 1) {
		case 0:
			r.size = t.Range(0, 40, "tiny")
		case 1:
			r.size = 3880 + t.Range(0, 160, "near4k")
		case 2:
			r.size = 4096 + t.Range(0, 8, "just4k")
		case 3:
			r.size = 9000 + t.Range(0, 200, "mid")
		case 4:
			r.size = 150000
		}
		r.status = []int{200, 201, 404, 500}[t.Choice(4, "status")]
		r.slow = t.Rare(1, 3, "slowbackend")
		// the backend may take its time before it answers at all (every upload attempt
		// may have failed by then)
		r.delay = []time.Duration{0, 0, 0, 2 * time.Second, 20 * time.Second}[t.Choice(5, "backenddelay")]
		reqs = append(reqs, r)
		ids = append(ids, r.id)
		rp.reqs[r.id] = serialiseRequest("GET", "/u/"+r.id, "example.test", http.Header{"X-Token": {r.id}, "X-Size": {strconv.Itoa(r.size)}, "X-Status": {strconv.Itoa(r.status)}, "X-Slow": {strconv.FormatBool(r.slow)}, "X-Delay-Ms": {strconv.Itoa(int(r.delay / time.Millisecond))}}, nil)
		if !faultFree {
			nf := t.Range(1, 3, "nfaults")
			for a := 0; a < nf; a++ {
				f := upFault{Kind: []string{"5xx", "reset", "close", "none"}[t.Pick("kind", 4, 2, 2, 1)]}
				switch t.Pick("pos", 1, 1, 2, 2, 2, 2, 1, 2, 2) {
				case 0:
					f.At = 1 // before the header block is complete
				case 1:
					f.At = -2 // inside the header block
				case 2:
					f.At = -10 // body offset 0
				case 3:
					f.At = -11
				case 4:
					f.At = -10 - 4090 - t.Choice(20, "around4k")
				case 5:
					f.At = -10 - t.Choice(r.size+200, "anywhere")
				case 6:
					f.At = -10 - 3 // mid first chunk header / data
				case 7, 8:
					f.At = -1 // after the complete body
				}
				if gce && f.Kind == "5xx" && t.Rare(1, 2, "401") {
					f.Status = 401
				}
				f.RetryAfter = []string{"", "", "0", "1", "Thu, 01 Jan 2015 00:00:00 GMT"}[t.Choice(5, "retryafter")]
				f.Drain = t.Choice(2, "drain") == 1
				f.Linger = []time.Duration{0, 50 * time.Millisecond, 2 * time.Second}[t.Choice(3, "linger")]
				rp.faults[r.id] = append(rp.faults[r.id], f)
			}
		}
	}
	rp.listIDs = [][]string{ids}
	rp.start()
	backendDone := map[string]bool{}
	var bmu sync.Mutex
	w.K.Spawn("agenthost", func() {
		l, err := sim.Listen("tcp", ":8080")
		if err != nil {
			panic(err)
		}
		http.Serve(l, http.HandlerFunc(func(rw http.ResponseWriter, r *http.Request) {
			tok := r.Header.Get("X-Token")
			size, _ := strconv.Atoi(r.Header.Get("X-Size"))
			st, _ := strconv.Atoi(r.Header.Get("X-Status"))
			slow := r.Header.Get("X-Slow") == "true"
			if ms, _ := strconv.Atoi(r.Header.Get("X-Delay-Ms")); ms > 0 {
				time.Sleep(time.Duration(ms) * time.Millisecond)
				w.Probe("backend_answers_late")
			}
			rw.Header().Set("X-Echo-Token", tok)
			rw.Header().Set("Content-Type", "application/octet-stream")
			rw.WriteHeader(st)
			body := tokenBody(tok+"/resp", size)
			if slow {
				// several flushed pieces with pauses: the upload is still streaming
				// when an early answer arrives
				for off := 0; off < len(body); {
					n := 1500
					if off+n > len(body) {
						n = len(body) - off
					}
					if _, err := rw.Write(body[off : off+n]); err != nil {
						break
					}
					rw.(http.Flusher).Flush()
					off += n
					time.Sleep(20 * time.Millisecond)
				}
			} else {
				rw.Write(body)
			}
			bmu.Lock()
			backendDone[tok] = true
			bmu.Unlock()
		}))
	})
	startAgent(w)
	w.K.Spawn("controller", func() {
		// long enough for three attempts, lingering closes and client timeouts
		time.Sleep(4 * time.Minute)
		w.K.Stop()
	})
	w.K.Horizon = 20 * time.Minute
	w.K.MaxSteps = 1500000
	var desc []string
	for _, r := range reqs {
		desc = append(desc, fmt.Sprintf("%s size=%d status=%d slow=%v faults=%+v", r.id, r.size, r.status, r.slow, rp.faults[r.id]))
	}
	w.Sample = map[string]interface{}{"requests": desc, "sendbuf": w.K.SendBuf}
	w.OnCheck(func() {
		for _, e := range w.K.Exits {
			w.Violation("crash", "node %s exited: %s", e.Node, e.Msg)
		}
		for _, r := range reqs {
			ats := rp.Attempts[r.id]
			if len(ats) > 3 {
				w.Violation("attempts", "request %s: %d upload attempts (at most 3 allowed)", r.id, len(ats))
			}
			want := tokenBody(r.id+"/resp", r.size)
			anyAck := false
			for _, a := range ats {
				if a.Complete && a.Acked >= 200 && a.Acked < 300 {
					anyAck = true
					if class, msg := checkSerialised(a.Body, r.status, r.id, want); msg != "" {
						// history class: did an earlier attempt of this upload end before the
						// proxy had read its whole body (so its sender could still be active)?
						hist := "all earlier attempts were read completely"
						for _, e := range ats[:a.N] {
							if !e.Complete {
								hist = "an earlier attempt ended while its body was still being sent"
							}
						}
						if a.N == 0 {
							hist = "first attempt"
						}
						w.Violation("corrupt-upload", "an upload attempt acknowledged as successful did not carry the complete serialised response (%s; %s) | request %s attempt %d acked %d: %s; earlier: %s", class, hist, r.id, a.N+1, a.Acked, msg, faultSummary(ats[:a.N]))
					}
				}
				if a.FaultHit && a.Fault.Kind == "5xx" && !a.Complete {
					w.Probe("early_5xx_while_body_streaming")
				}
				if a.N > 0 && a.RawLen > 0 {
					w.Probe("retry_attempt_seen")
				}
			}
			if len(ats) == 0 {
				w.Violation("progress", "request %s: no upload attempt reached the proxy", r.id)
			}
			if faultFree && !anyAck {
				w.Violation("progress", "request %s: no acknowledged upload without any injected fault", r.id)
			}
			if !backendDone[r.id] && r.size < 1000 {
				w.Violation("handler-blocked", "backend handler for %s never finished", r.id)
			}
		}
		// nothing of the forwarder may still be blocked long after the last attempt
		buf := make([]byte, 4<<20)
		n := runtime.Stack(buf, true)
		for _, g := range strings.Split(string(buf[:n]), "\n\n") {
			if strings.Contains(g, "inverting-proxy/agent.processOneRequest") || strings.Contains(g, "agent/utils.NewResponseForwarder.func") || strings.Contains(g, "agent/utils.postResponseWithRetries") {
				first := g
				if i := strings.Index(g, "\n"); i > 0 {
					first = g[:i]
				}
				fn := "?"
				for _, line := range strings.Split(g, "\n") {
					if strings.Contains(line, "inverting-proxy/agent") && !strings.HasPrefix(line, "\t") {
						fn = strings.TrimSpace(line)
						if i := strings.Index(fn, "("); i > 0 {
							fn = fn[:i]
						}
						break
					}
				}
				w.Violation("handler-blocked", "a goroutine of a finished upload is still blocked minutes later | in %s (%s)", fn, first)
				break
			}
		}
	})
}

func faultSummary(ats []*rawAttempt) string {
	var s []string
	for _, a := range ats {
		s = append(s, fmt.Sprintf("#%d %s@%d hit=%v rawlen=%d complete=%v acked=%d", a.N+1, a.Fault.Kind, a.Fault.At, a.FaultHit, a.RawLen, a.Complete, a.Acked))
	}
	return strings.Join(s, "; ")
}

// checkSerialised verifies that b is exactly one serialised response with the
// expected status, token and body and nothing else.
func checkSerialised(b []byte, status int, tok string, body []byte) (class, msg string) {
	br := bufio.NewReader(bytes.NewReader(b))
	resp, err := http.ReadResponse(br, nil)
	if err != nil {
		return "unparsable", "does not parse as a response: " + err.Error() + " (starts " + strconv.Quote(string(b[:min(len(b), 40)])) + ")"
	}
	got, err := io.ReadAll(resp.Body)
	if err != nil {
		return "unparsable", "body does not parse: " + err.Error()
	}
	if resp.StatusCode != status {
		return "wrong status", fmt.Sprintf("status %d, want %d", resp.StatusCode, status)
	}
	if resp.Header.Get("X-Echo-Token") != tok {
		return "wrong header", "token header " + resp.Header.Get("X-Echo-Token")
	}
	if !bytes.Equal(got, body) {
		i := 0
		for i < len(got) && i < len(body) && got[i] == body[i] {
			i++
		}
		return "body differs", fmt.Sprintf("got %d bytes, want %d, first difference at offset %d", len(got), len(body), i)
	}
	if rest, _ := io.ReadAll(br); len(rest) > 0 {
		return "trailing bytes", fmt.Sprintf("%d bytes of trailing garbage after the response", len(rest))
	}
	return "", ""
}

var _ net.Conn
