package harness

import (
	"bufio"
	"bytes"
	"encoding/json"
	"fmt"
	"github.com/gorilla/websocket"
	"io"
	"net/http"
	"sort"
	"strings"
	"sync"
	"time"

	"verif/sim"
)

func init() {
	register("C04", worldC04)
	register("C04b", worldC04b)
}

// countingBackend serves on agenthost:8080 and counts invocations per token.
type countingBackend struct {
	mu    sync.Mutex
	Seen  map[string]int
	Delay func(tok string) time.Duration
	// Stream, if set and true for a token, makes the answer a slow flushed stream
	Stream func(tok string) bool
	// ResetAfterExec, if set and true for a token, makes the backend execute the
	// request and then reset the connection before the first response byte
	// (nth: how many requests this connection has carried, this one included)
	ResetAfterExec func(tok string, nth int) bool
	perConn        map[string]int
	// DropConns (sabotage backend only) closes every connection accepted so far
	DropConns func()
	// RejectWS, if set and true for a token, makes the backend turn a websocket
	// handshake for that token down with 403 (it is counted like any request)
	RejectWS func(tok string) bool
}

func startCountingBackend(w *World) *countingBackend {
	cb := &countingBackend{Seen: map[string]int{}}
	w.K.Spawn("agenthost", func() {
		l, err := sim.Listen("tcp", ":8080")
		if err != nil {
			panic(err)
		}
		http.Serve(l, http.HandlerFunc(func(rw http.ResponseWriter, r *http.Request) {
			tok := strings.TrimPrefix(r.URL.Path, "/r/")
			if websocket.IsWebSocketUpgrade(r) {
				cb.mu.Lock()
				cb.Seen[tok]++
				cb.mu.Unlock()
				if cb.RejectWS != nil && cb.RejectWS(tok) {
					w.K.Count("fault.backend_rejects_websocket_handshake")
					http.Error(rw, "no websockets here", 403)
					return
				}
				up := websocket.Upgrader{CheckOrigin: func(*http.Request) bool { return true }}
				if c, err := up.Upgrade(rw, r, nil); err == nil {
					defer c.Close()
					for {
						if _, _, err := c.ReadMessage(); err != nil {
							return
						}
					}
				}
				return
			}
			io.Copy(io.Discard, r.Body)
			cb.mu.Lock()
			cb.Seen[tok]++
			if cb.perConn == nil {
				cb.perConn = map[string]int{}
			}
			cb.perConn[r.RemoteAddr]++
			nth := cb.perConn[r.RemoteAddr]
			reset := cb.ResetAfterExec != nil && cb.ResetAfterExec(tok, nth)
			d := time.Duration(0)
			if cb.Delay != nil {
				d = cb.Delay(tok)
			}
			cb.mu.Unlock()
			if d > 0 {
				time.Sleep(d)
			}
			if reset {
				if hj, ok := rw.(http.Hijacker); ok {
					if c, _, err := hj.Hijack(); err == nil {
						w.K.Count("fault.backend_reset_after_exec")
						c.(*sim.Conn).Abort()
						return
					}
				}
			}
			rw.Header().Set("X-Echo-Token", tok)
			if cb.Stream != nil && cb.Stream(tok) {
				// the same body, produced in flushed pieces with pauses
				body := "resp:" + tok
				for i := 0; i < len(body); i++ {
					rw.Write([]byte{body[i]})
					rw.(http.Flusher).Flush()
					time.Sleep(300 * time.Millisecond)
				}
				return
			}
			rw.Write([]byte("resp:" + tok))
		}))
	})
	return cb
}

// worldC04: the agent against a fake proxy whose pending-list replies repeat,
// permute and overlap request IDs.
func worldC04(w *World) {
	t := w.T
	faulty := w.Cfg == "faulty"
	window := w.Cfg == "window"
	m := t.Range(2, 12, "ids")
	if w.Tier == "thorough" {
		m = t.Range(2, 60, "ids")
	}
	w.K.ChaosMult = []int{2, 1, 4}[t.Choice(3, "chaos")]
	w.K.LatencyMenu = [][]time.Duration{{0}, {0, time.Millisecond, 20 * time.Millisecond}}[t.Choice(2, "latprofile")]
	fp := NewFakeProxy(w)
	ids := make([]string, m)
	bodylessPost := map[string]bool{}
	// with the websocket shim mounted, some of the requests open shimmed websockets;
	// the backend turns half of those handshakes down
	shimOpens := !window && !faulty && t.Rare(1, 4, "shimopens")
	shimOpen := map[string]bool{}
	for i := range ids {
		ids[i] = fmt.Sprintf("id%04d", i)
		if shimOpens && t.Rare(1, 2, "isopen") {
			shimOpen[ids[i]] = true
			fp.AddRequest(ids[i], serialiseRequest("POST", "/shim/open", "example.test", http.Header{"X-Token": {ids[i]}}, []byte("ws://example.test/r/"+ids[i])), "")
			w.Probe("shim_open_requests_among_the_listed_ids")
			continue
		}
		method := []string{"GET", "POST"}[t.Choice(2, "method")]
		var body []byte
		if method == "POST" {
			body = tokenBody(ids[i], []int{0, 5, 5000}[t.Choice(3, "bodysize")])
			if len(body) == 0 {
				bodylessPost[ids[i]] = true
			}
		}
		fp.AddRequest(ids[i], serialiseRequest(method, "/r/"+ids[i], "example.test", http.Header{"X-Token": {ids[i]}}, body), "")
	}
	// the script of list replies
	nReplies := t.Range(2, 10, "replies")
	var script [][]string
	slowID := ""
	if window {
		// the dedup window: re-list id0 after 'gap' other distinct IDs (gap <= 998,
		// so that at most 999 distinct IDs are outstanding in between)
		if t.Rare(1, 2, "listed-every-time") {
			// id0 stays outstanding (slow backend) and is listed in every reply while
			// more than 1000 other IDs are listed and complete; every listing must keep
			// it among the recently seen ones
			w.Probe("relisted_every_time")
			slowID = ids[0]
			script = append(script, []string{ids[0]})
			total := []int{1100, 1500}[t.Choice(2, "others")]
			per := []int{100, 250}[t.Choice(2, "perreply")]
			for i := 0; i < total; i += per {
				rep := []string{ids[0]}
				for j := i; j < i+per && j < total; j++ {
					rep = append(rep, fmt.Sprintf("y%05d", j))
				}
				script = append(script, rep)
			}
			script = append(script, []string{ids[0]}, ids)
		} else {
			gap := []int{997, 998, 500, 998}[t.Choice(4, "gap")]
			extra := make([]string, gap)
			for i := range extra {
				extra[i] = fmt.Sprintf("x%05d", i)
			}
			script = append(script, []string{ids[0]})
			per := []int{100, 499, 998}[t.Choice(3, "perreply")]
			for i := 0; i < len(extra); i += per {
				j := i + per
				if j > len(extra) {
					j = len(extra)
				}
				script = append(script, extra[i:j])
			}
			script = append(script, []string{ids[0]}, ids)
		}
		w.Probe("window_relist")
	} else {
		for i := 0; i < nReplies; i++ {
			k := t.Range(0, m, "replylen")
			var rep []string
			for j := 0; j < k; j++ {
				rep = append(rep, ids[t.Choice(m, "pick")])
			}
			script = append(script, rep)
		}
		// an outage of the proxy: a run of failed polls in the middle of the script
		// (what was listed before it is listed again after it)
		if t.Rare(1, 3, "outage") {
			k := []int{2, 9, 13}[t.Choice(3, "outagelen")]
			at := t.Range(1, len(script), "outageat")
			var ns [][]string
			ns = append(ns, script[:at]...)
			for i := 0; i < k; i++ {
				ns = append(ns, []string{"!fail"})
			}
			ns = append(ns, script[at-1])
			ns = append(ns, script[at:]...)
			script = ns
			w.Probe("proxy_outage_of_many_polls")
		}
		// make sure every ID is listed at least once, last
		script = append(script, ids)
	}
	failFetch := map[string]int{}
	failUpload := map[string]bool{}
	resetUpload := map[string]bool{}
	// a backend that executes a request and then resets the (reused) connection
	// before answering: only for body-less POSTs - net/http's transport replays
	// idempotent requests in that situation, as HTTP allows, and a POST with a
	// body cannot be replayed
	resetBackend := map[string]bool{}
	if faulty {
		for _, id := range ids {
			if bodylessPost[id] && t.Rare(1, 2, "backendreset") {
				resetBackend[id] = true
			}
		}
	}
	if faulty {
		for _, id := range ids {
			switch t.Pick("fault", 6, 1, 1, 1, 2) {
			case 4:
				resetUpload[id] = true // every upload attempt is cut by a connection reset
			case 1:
				failFetch[id] = 1 // one 5xx, agent retries
			case 2:
				failFetch[id] = 3 // all three attempts fail
			case 3:
				failUpload[id] = true
			}
		}
	}
	var pmu sync.Mutex
	fp.OnList = func(n int, r *http.Request) (int, []byte) {
		if n < len(script) {
			d := []time.Duration{0, 0, time.Millisecond, 30 * time.Millisecond, 400 * time.Millisecond}[0]
			pmu.Lock()
			d = []time.Duration{0, 0, time.Millisecond, 30 * time.Millisecond, 400 * time.Millisecond}[t.Choice(5, "listdelay")]
			pmu.Unlock()
			if d > 0 {
				time.Sleep(d)
			}
			if len(script[n]) == 1 && script[n][0] == "!fail" {
				w.K.Count("fault.list_5xx")
				return 503, []byte("injected outage")
			}
			return 200, jsonList(script[n])
		}
		if n == len(script) && faulty {
			// uncompleted requests are listed again after their uploads have failed
			time.Sleep(10 * time.Second)
			return 200, jsonList(ids)
		}
		return 0, nil // long poll that never answers
	}
	fetchFails := map[string]int{}
	fp.OnFetch = func(id string, attempt int, rw http.ResponseWriter) bool {
		pmu.Lock()
		defer pmu.Unlock()
		if strings.HasPrefix(id, "x") || strings.HasPrefix(id, "y") {
			http.NotFound(rw, nil)
			return true
		}
		if fetchFails[id] < failFetch[id] {
			fetchFails[id]++
			w.K.Count("fault.fetch_5xx")
			http.Error(rw, "injected", 503)
			return true
		}
		return false
	}
	fp.OnUpload = func(id string, attempt int, rw http.ResponseWriter, r *http.Request) bool {
		if resetUpload[id] {
			w.K.Count("fault.upload_reset")
			if hj, ok := rw.(http.Hijacker); ok {
				if c, _, err := hj.Hijack(); err == nil {
					c.(*sim.Conn).Abort()
				}
			}
			return true
		}
		if failUpload[id] {
			w.K.Count("fault.upload_5xx")
			io.Copy(io.Discard, r.Body)
			http.Error(rw, "injected", 502)
			return true
		}
		return false
	}
	fp.Start()
	cb := startCountingBackend(w)
	cb.ResetAfterExec = func(tok string, nth int) bool {
		if resetBackend[tok] && nth >= 2 {
			w.Probe("backend_reset_after_executing_post_on_reused_connection")
			return true
		}
		return false
	}
	cb.Delay = func(tok string) time.Duration {
		if tok == slowID && slowID != "" {
			return 10 * time.Minute // outstanding for the whole run
		}
		return []time.Duration{0, 0, 5 * time.Millisecond, 700 * time.Millisecond}[int(tok[len(tok)-1]-'0')%4]
	}
	cb.RejectWS = func(tok string) bool { return shimOpen[tok] && int(tok[len(tok)-1]-'0')%2 == 0 }
	if shimOpens {
		startAgent(w, "-shim-path=shim")
	} else {
		startAgent(w)
	}
	w.K.Spawn("controller", func() {
		// wait until the script is exhausted and things have settled
		for {
			time.Sleep(2 * time.Second)
			fp.mu.Lock()
			n := len(fp.ListCalls)
			fp.mu.Unlock()
			if n > len(script)+1 || (!faulty && n > len(script)) {
				break
			}
		}
		time.Sleep(20 * time.Second)
		w.K.Stop()
	})
	w.Sample = map[string]interface{}{"ids": m, "script": summarise(script), "faulty": faulty, "window": window}
	w.OnCheck(func() {
		for _, e := range w.K.Exits {
			w.Violation("crash", "node %s exited: %s", e.Node, e.Msg)
		}
		repeats := 0
		listed := map[string]int{}
		for _, rep := range script {
			for _, id := range rep {
				if id != "!fail" {
					listed[id]++
				}
			}
		}
		for _, id := range ids {
			if listed[id] > 1 {
				repeats++
			}
			n := cb.Seen[id]
			if n > 1 {
				w.Violation("at-most-once", "request %s (listed %d times) was forwarded to the backend %d times", id, listed[id], n)
			}
			fr := fp.Reqs[id]
			cleanFetch := fr.Fetches > 0 && fr.Served == fr.Fetches
			ups := fp.Uploads[id]
			cleanUpload := true
			for _, u := range ups {
				if u.Status != 200 {
					cleanUpload = false
				}
			}
			if failUpload[id] || resetUpload[id] {
				cleanUpload = false
			}
			if cleanFetch && cleanUpload && n != 1 {
				w.Violation("exactly-once", "request %s was served without error by the proxy but forwarded %d times", id, n)
			}
			if failFetch[id] == 1 && fr.Served >= 1 && n != 1 && !failUpload[id] && !resetUpload[id] {
				w.Violation("exactly-once", "request %s (one injected 5xx on fetch, then served) was forwarded %d times", id, n)
			}
		}
		if repeats > 0 {
			w.Probe("id_listed_more_than_once")
		}
	})
}

func summarise(script [][]string) string {
	var sb strings.Builder
	for i, r := range script {
		if i > 6 {
			sb.WriteString("...")
			break
		}
		if len(r) > 8 {
			fmt.Fprintf(&sb, "[%s..%s (%d)] ", r[0], r[len(r)-1], len(r))
		} else {
			fmt.Fprintf(&sb, "%v ", r)
		}
	}
	return sb.String()
}

// worldC04b: the stand-alone proxy with several concurrent pollers: every
// request ID is handed to exactly one pending-list reply.
func worldC04b(w *World) {
	t := w.T
	faulty := w.Cfg == "faulty"
	nPollers := t.Range(2, 5, "pollers")
	nClients := t.Range(2, 10, "clients")
	if w.Tier == "thorough" {
		nClients = t.Range(2, 40, "clients")
	}
	// a burst: far more client requests than usual are waiting when the first poll arrives
	burst := !faulty && t.Rare(1, 10, "burst")
	if burst {
		nClients = []int{101, 130, 260}[t.Choice(3, "burstsize")]
		w.Probe("burst_of_waiting_requests")
	}
	w.K.ChaosMult = []int{2, 1, 4}[t.Choice(3, "chaos")]
	w.K.LatencyMenu = [][]time.Duration{{0}, {0, time.Millisecond, 20 * time.Millisecond}}[t.Choice(2, "latprofile")]
	startProxy(w)
	var mu sync.Mutex
	listedBy := map[string][]int{} // request ID -> pollers that were told about it
	served := map[string]string{}  // request ID -> token
	var wg sync.WaitGroup
	var handlers sync.WaitGroup
	slowBackend := []time.Duration{0, 0, 12 * time.Second, 25 * time.Second}[t.Choice(4, "slowbackend")]
	stop := false
	aborts := 0
	for p := 0; p < nPollers; p++ {
		p := p
		abortEvery := 0
		halfClose := false
		if faulty {
			abortEvery = []int{0, 2, 3}[t.Choice(3, "abortevery")]
			// a poller that shuts down its sending direction right after the list
			// request (the server sees EOF, the reply is still delivered)
			halfClose = t.Rare(1, 3, "halfclose")
		}
		w.K.Spawn(fmt.Sprintf("poller%d", p), func() {
			cl := w.Client()
			if burst {
				time.Sleep(2 * time.Second)
			}
			for round := 0; ; round++ {
				mu.Lock()
				s := stop
				mu.Unlock()
				if s {
					return
				}
				req, _ := http.NewRequest("GET", "http://proxy:80/agent/pending", nil)
				req.Header.Set("X-Inverting-Proxy-Backend-ID", fmt.Sprintf("b%d", p))
				c2 := cl
				if abortEvery > 0 && round%abortEvery == abortEvery-1 {
					// a poller that gives up while the list call is outstanding
					c2 = &http.Client{Transport: cl.Transport, Timeout: time.Duration(1+round%3) * 3 * time.Millisecond}
					mu.Lock()
					aborts++
					mu.Unlock()
				}
				var b []byte
				if halfClose {
					w.Probe("half_closed_poller")
					hc, err := sim.Dial("tcp", "proxy:80")
					if err != nil {
						continue
					}
					fmt.Fprintf(hc, "GET /agent/pending HTTP/1.1\r\nHost: proxy\r\nX-Inverting-Proxy-Backend-ID: b%d\r\n\r\n", p)
					hc.(*sim.Conn).CloseWrite()
					hresp, err := http.ReadResponse(bufio.NewReader(hc), nil)
					if err != nil {
						hc.Close()
						continue
					}
					b, err = io.ReadAll(hresp.Body)
					hc.Close()
					if err != nil || hresp.StatusCode != 200 {
						continue
					}
				} else {
					resp, err := c2.Do(req)
					if err != nil {
						continue
					}
					b, err = io.ReadAll(resp.Body)
					resp.Body.Close()
					if err != nil || resp.StatusCode != 200 {
						continue
					}
				}
				var ids []string
				if len(b) > 0 {
					if json.Unmarshal(b, &ids) != nil {
						w.Violation("list-format", "poller got a malformed list reply %q", b)
						continue
					}
				}
				mu.Lock()
				for _, id := range ids {
					listedBy[id] = append(listedBy[id], p)
				}
				mu.Unlock()
				// act as the agent for these IDs so that the clients complete (a slow
				// backend is played by answering some of them only after a long while,
				// on another goroutine, so that this poller goes on polling meanwhile)
				for _, id := range ids {
					id := id
					lat := time.Duration(0)
					if slowBackend > 0 && len(id) > 0 && id[len(id)-1]%3 == 0 {
						lat = slowBackend
						w.Probe("request_outstanding_for_a_long_time")
					}
					handlers.Add(1)
					go func() {
						defer handlers.Done()
						greq, _ := http.NewRequest("GET", "http://proxy:80/agent/request", nil)
						greq.Header.Set("X-Inverting-Proxy-Backend-ID", fmt.Sprintf("b%d", p))
						greq.Header.Set("X-Inverting-Proxy-Request-ID", id)
						gresp, err := cl.Do(greq)
						if err != nil {
							return
						}
						raw, _ := io.ReadAll(gresp.Body)
						gresp.Body.Close()
						tok := ""
						if i := bytes.Index(raw, []byte("X-Token: ")); i >= 0 {
							rest := raw[i+9:]
							if j := bytes.IndexByte(rest, '\r'); j >= 0 {
								tok = string(rest[:j])
							}
						}
						mu.Lock()
						served[id] = tok
						mu.Unlock()
						if lat > 0 {
							time.Sleep(lat)
						}
						body := "HTTP/1.1 200 OK\r\nX-Echo-Token: " + tok + "\r\nContent-Length: 2\r\n\r\nok"
						preq, _ := http.NewRequest("POST", "http://proxy:80/agent/response", strings.NewReader(body))
						preq.Header.Set("X-Inverting-Proxy-Backend-ID", fmt.Sprintf("b%d", p))
						preq.Header.Set("X-Inverting-Proxy-Request-ID", id)
						if presp, err := cl.Do(preq); err == nil {
							io.Copy(io.Discard, presp.Body)
							presp.Body.Close()
						}
					}()
				}
			}
		})
	}
	got := make([]string, nClients)
	for i := 0; i < nClients; i++ {
		i := i
		wg.Add(1)
		delay := []time.Duration{0, 0, time.Millisecond, 10 * time.Millisecond, 31 * time.Second}[t.Choice(5, "clientdelay")]
		if burst && delay > time.Second {
			delay = 0
		}
		w.K.Spawn(fmt.Sprintf("client%d", i), func() {
			defer wg.Done()
			if delay > 0 {
				time.Sleep(delay)
			}
			cl := w.Client()
			req, _ := http.NewRequest("GET", fmt.Sprintf("http://proxy:80/c/%d", i), nil)
			req.Header.Set("X-Token", fmt.Sprintf("tok%d", i))
			resp, err := cl.Do(req)
			if err != nil {
				got[i] = "ERR " + err.Error()
				return
			}
			io.Copy(io.Discard, resp.Body)
			resp.Body.Close()
			got[i] = resp.Header.Get("X-Echo-Token")
		})
	}
	w.K.Spawn("controller", func() {
		wg.Wait()
		mu.Lock()
		stop = true
		mu.Unlock()
		w.K.Stop()
	})
	w.Sample = map[string]interface{}{"pollers": nPollers, "clients": nClients, "faulty": faulty}
	w.OnCheck(func() {
		for _, e := range w.K.Exits {
			w.Violation("crash", "node %s exited: %s", e.Node, e.Msg)
		}
		ids := make([]string, 0, len(listedBy))
		for id := range listedBy {
			ids = append(ids, id)
		}
		sort.Strings(ids)
		for _, id := range ids {
			if len(listedBy[id]) > 1 {
				w.Violation("handed-out-once", "request ID %s… was reported to %d pending-list replies (pollers %v)", id[:8], len(listedBy[id]), listedBy[id])
			}
		}
		if !faulty {
			if len(listedBy) != nClients {
				w.Violation("handed-out-once", "%d client requests but %d distinct IDs were listed", nClients, len(listedBy))
			}
			for i, g := range got {
				if g != fmt.Sprintf("tok%d", i) {
					w.Violation("progress", "client %d ended with %q", i, g)
				}
			}
		} else if aborts > 0 {
			w.Probe("poller_aborted")
		}
		if nPollers >= 2 {
			w.Probe("concurrent_pollers")
		}
	})
}
