package harness

import (
	"bufio"
	"bytes"
	"fmt"
	"io"
	"net"
	"net/http"
	"os"
	"strings"
	"sync"
	"time"

	"verif/sim"
)

func init() { register("C02", worldC02) }

type genReq struct {
	Method  string
	Target  string
	Host    string
	Fields  []hfield // end-to-end and hop-by-hop fields as the client sends them (without framing)
	Body    []byte
	Chunked bool
	Chunks  []int
	// SlowBody: the client sends the body 300 ms after the header block
	SlowBody bool
	// Expect: the request carries Expect: 100-continue
	Expect bool
}

func (g *genReq) wire() []byte {
	var b bytes.Buffer
	fmt.Fprintf(&b, "%s %s HTTP/1.1\r\nHost: %s\r\n", g.Method, g.Target, g.Host)
	for _, f := range g.Fields {
		if f.Value == "" {
			fmt.Fprintf(&b, "%s:\r\n", f.Name)
		} else {
			fmt.Fprintf(&b, "%s: %s\r\n", f.Name, f.Value)
		}
	}
	hasBody := len(g.Body) > 0 || g.Method == "POST" || g.Method == "PUT" || g.Method == "PATCH"
	if g.Chunked {
		b.WriteString("Transfer-Encoding: chunked\r\n\r\n")
		off := 0
		for _, n := range g.Chunks {
			if off+n > len(g.Body) {
				n = len(g.Body) - off
			}
			if n <= 0 {
				break
			}
			fmt.Fprintf(&b, "%x\r\n", n)
			b.Write(g.Body[off : off+n])
			b.WriteString("\r\n")
			off += n
		}
		if off < len(g.Body) {
			fmt.Fprintf(&b, "%x\r\n", len(g.Body)-off)
			b.Write(g.Body[off:])
			b.WriteString("\r\n")
		}
		b.WriteString("0\r\n\r\n")
	} else {
		if hasBody {
			fmt.Fprintf(&b, "Content-Length: %d\r\n", len(g.Body))
		}
		b.WriteString("\r\n")
		b.Write(g.Body)
	}
	return b.Bytes()
}

var pathSegs = []string{"a", "index.html", "%2F", "a%2Fb", "%20", "x%20y", "caf%C3%A9", "..", ".", "", "~user", "a+b", "q=1", "semi;colon", "at@sign", "colon:x", "(paren)", "star*", "%41", "%7e", "%E2%82%AC", "a,b", "$d", "!bang", "'q'", "UPPER", "%2e%2e", "%252F"}
var queryParts = []string{"a=1", "b=%20x", "c=", "d", "e=%2F%2F", "f=a+b", "g=caf%C3%A9", "h=1&h=2", "i==", "j=%26amp", "k=~", "L=UP", "m=%3B", "n=/slash", "o=?q", "p=:colon@at"}
var fieldNames = []string{"Idempotency-Key", "X-Idempotency-Key", "X-Forwarded-Host", "X-Custom", "x-lower", "X-UPPER-CASE", "X_Under_Score", "Accept", "Accept-Language", "Cookie", "Content-Type", "Range", "If-None-Match", "Authorization", "X-Forwarded-For", "X-Forwarded-Proto", "Cache-Control", "Origin", "Referer", "User-Agent", "Accept-Encoding", "X-1", "X.Dot", "X~Tilde", "Via", "Forwarded", "Pragma", "DNT"}
var fieldValues = []string{"1", "", "text/html, application/xhtml+xml;q=0.9, */*;q=0.8", "a=b; c=d", "bytes=0-99", "W/\"etag-1\"", "Bearer abc.def.ghi", "value with  two spaces", "tab\tinside", "comma,separated,list", "\"quoted, string\"", "1.2.3.4", "https", "max-age=0", "Mozilla/5.0 (X11; Linux x86_64)", "gzip", "identity", "gzip, deflate, br", "UPPER lower MiXeD", "semi;colon;x=1", "=?utf-8?q?x?=", "null", "0", "trailing.dot."}

// singleton fields are defined to occur at most once with a non-empty value;
// a request repeating them is not well-formed
var singleton = map[string]bool{"user-agent": true, "content-type": true, "authorization": true, "referer": true, "origin": true, "range": true, "if-none-match": true, "dnt": true}

func hasField(fs []hfield, name string) bool {
	for _, f := range fs {
		if strings.EqualFold(f.Name, name) {
			return true
		}
	}
	return false
}

func usuallyBodiless(m string) bool {
	switch m {
	case "GET", "HEAD", "DELETE", "OPTIONS", "PROPFIND", "SEARCH":
		return true
	}
	return false
}

func genRequest(t *sim.Tape, thorough bool, idx int) *genReq {
	g := &genReq{}
	g.Method = []string{"GET", "POST", "PUT", "DELETE", "PATCH", "OPTIONS", "HEAD", "PROPFIND", "PURGE", "REPORT", "M-SEARCH"}[t.Pick("method", 4, 4, 2, 1, 1, 1, 1, 1, 1, 1, 1)]
	ns := t.Range(1, 5, "nseg")
	var sb strings.Builder
	for i := 0; i < ns; i++ {
		sb.WriteByte('/')
		sb.WriteString(pathSegs[t.Choice(len(pathSegs), "seg")])
	}
	if t.Rare(1, 4, "trailing/") {
		sb.WriteByte('/')
	}
	// unique marker so the backend can attribute the request
	fmt.Fprintf(&sb, "/m%03d", idx)
	switch t.Pick("query", 3, 1, 4) {
	case 1:
		sb.WriteByte('?')
	case 2:
		sb.WriteByte('?')
		nq := t.Range(1, 4, "nq")
		for i := 0; i < nq; i++ {
			if i > 0 {
				sb.WriteByte('&')
			}
			sb.WriteString(queryParts[t.Choice(len(queryParts), "qp")])
		}
	}
	g.Target = sb.String()
	g.Host = []string{"example.test", "example.test:8443", "ExAmple.Test", "sub.domain.example.test", "10.1.2.3:8080", "xn--bcher-kva.example"}[t.Pick("host", 5, 2, 1, 1, 1, 1)]
	nf := t.Range(0, 8, "nfields")
	for i := 0; i < nf; i++ {
		name := fieldNames[t.Choice(len(fieldNames), "fname")]
		val := fieldValues[t.Choice(len(fieldValues), "fval")]
		if t.Rare(1, 12, "longval") {
			val = strings.Repeat("v", []int{1000, 4096, 8000}[t.Choice(3, "longlen")])
		}
		if (singleton[strings.ToLower(name)] || strings.EqualFold(name, "Accept-Encoding")) && (val == "" || hasField(g.Fields, name)) {
			continue
		}
		g.Fields = append(g.Fields, hfield{name, val})
		if !singleton[strings.ToLower(name)] && t.Rare(1, 4, "repeat") {
			g.Fields = append(g.Fields, hfield{name, fieldValues[t.Choice(len(fieldValues), "fval2")]})
		}
	}
	// hop-by-hop fields that must not be forwarded
	switch t.Pick("hop", 4, 1, 1, 1, 1) {
	case 1:
		g.Fields = append(g.Fields, hfield{"Connection", "keep-alive"}, hfield{"Keep-Alive", "timeout=5"})
	case 2:
		g.Fields = append(g.Fields, hfield{"Connection", "X-Hop-Named"}, hfield{"X-Hop-Named", "1"})
	case 3:
		g.Fields = append(g.Fields, hfield{"TE", "trailers"}, hfield{"Proxy-Authorization", "Basic eDp5"})
	case 4:
		g.Fields = append(g.Fields, hfield{"Upgrade", "h2c"}, hfield{"Connection", "Upgrade"})
	}
	bodyAllowed := g.Method != "GET" && g.Method != "HEAD" && g.Method != "OPTIONS" && g.Method != "DELETE" || t.Rare(1, 6, "bodyonget")
	if bodyAllowed {
		sizes := []int{0, 1, 2, 100, 4095, 4096, 4097, 32 << 10, 70 << 10}
		if thorough {
			sizes = append(sizes, 1<<20, 1<<20+1, 5<<20)
		}
		n := sizes[t.Choice(len(sizes), "bodysize")]
		g.Body = t.Sub("body").Bytes(n)
		if n > 0 && !hasField(g.Fields, "Content-Type") && t.Rare(1, 4, "formbody") {
			// form submissions: bodies a server-side form parser would be tempted to consume
			if t.Choice(2, "formkind") == 0 {
				g.Fields = append(g.Fields, hfield{"Content-Type", []string{"application/x-www-form-urlencoded", "application/x-www-form-urlencoded; charset=UTF-8"}[t.Choice(2, "formct")]})
				var fb strings.Builder
				for fb.Len() < n {
					fmt.Fprintf(&fb, "k%d=v%%20%d&backend-id=x&request-id=y&", fb.Len(), fb.Len())
				}
				g.Body = []byte(fb.String()[:n])
			} else {
				g.Fields = append(g.Fields, hfield{"Content-Type", "multipart/form-data; boundary=XbOuNdArY"})
				var fb strings.Builder
				fb.WriteString("--XbOuNdArY\r\nContent-Disposition: form-data; name=\"backend-id\"\r\n\r\nvalue\r\n")
				for fb.Len() < n {
					fmt.Fprintf(&fb, "--XbOuNdArY\r\nContent-Disposition: form-data; name=\"f%d\"\r\n\r\n%d\r\n", fb.Len(), fb.Len())
				}
				fb.WriteString("--XbOuNdArY--\r\n")
				g.Body = []byte(fb.String())
			}
		}
		// curl and others announce larger uploads with Expect: 100-continue (and send
		// the body anyway when no interim answer comes)
		if n > 0 && t.Rare(1, 6, "expect") {
			g.Fields = append(g.Fields, hfield{"Expect", "100-continue"})
			g.Expect = true
		}
		if n > 0 && t.Rare(1, 2, "chunked") {
			g.Chunked = true
			g.SlowBody = t.Rare(1, 6, "slowbody")
			nc := t.Range(1, 6, "nchunks")
			for i := 0; i < nc; i++ {
				g.Chunks = append(g.Chunks, []int{1, 2, 100, 4096, 5000, 40000}[t.Choice(6, "chunk")])
			}
		}
	}
	return g
}

// worldC02: raw TCP client -> real proxy -> real agent -> raw recording backend.
func worldC02(w *World) {
	t := w.T
	w.K.ChaosMult = []int{2, 1, 4}[t.Choice(3, "chaos")]
	w.K.LatencyMenu = [][]time.Duration{{0}, {0, time.Millisecond, 10 * time.Millisecond}}[t.Choice(2, "latprofile")]
	w.K.SegmentPct = []int{0, 20, 70}[t.Choice(3, "segpct")]
	w.K.SendBuf = []int{64 << 10, 4 << 10, 1 << 20}[t.Choice(3, "sendbuf")]
	n := t.Range(1, 4, "requests")
	reqs := make([]*genReq, n)
	for i := range reqs {
		reqs[i] = genRequest(t, w.Tier == "thorough", i)
	}
	startProxy(w)
	rb := &rawBackend{}
	bfault := w.Cfg == "bfault"
	killed := map[int]bool{}
	if bfault {
		// the backend closes a kept-alive connection after having read a request and
		// before answering it (once per request): net/http may transparently resend
		rb.Respond = func(c net.Conn, req *wireMsg, k int) bool {
			idx := -1
			if i := strings.Index(req.StartLine, "/m"); i >= 0 {
				fmt.Sscanf(req.StartLine[i:], "/m%03d", &idx)
			}
			rb.mu.Lock()
			kill := idx >= 0 && idx < n && !killed[idx] && idx%2 == 0
			if kill {
				killed[idx] = true
			}
			rb.mu.Unlock()
			if kill {
				w.K.Count("fault.backend_closes_keepalive_before_answer")
				return false
			}
			if strings.HasPrefix(req.StartLine, "HEAD ") {
				fmt.Fprintf(c, "HTTP/1.1 200 OK\r\nContent-Length: 2\r\n\r\n")
			} else {
				fmt.Fprintf(c, "HTTP/1.1 200 OK\r\nContent-Length: 2\r\n\r\nok")
			}
			return true
		}
	}
	if bfault && t.Rare(1, 2, "refusedial") {
		// the backend is restarting: one of the next new connections to it is refused
		w.K.Faults = append(w.K.Faults, &sim.NetFault{ToAddr: "agenthost:8080", ConnOrd: 1 + t.Choice(3, "refuseord"), Kind: sim.FaultRefuse})
		w.Probe("backend_dial_refused_once")
	}
	startRawBackend(w, rb)
	// the agent's optional response-side features must not touch what is forwarded
	var agentArgs []string
	if t.Rare(1, 3, "shimmounted") {
		agentArgs = append(agentArgs, "-shim-websockets", "-shim-path=shim")
		w.Probe("agent_with_shim_mounted")
	}
	startAgent(w, agentArgs...)
	warm := make(chan struct{})
	if bfault {
		// a first request leaves an idle kept-alive connection to the backend behind
		w.K.Spawn("warmup", func() {
			defer close(warm)
			cl := w.Client()
			if resp, err := cl.Get("http://proxy:80/warmup"); err == nil {
				io.Copy(io.Discard, resp.Body)
				resp.Body.Close()
			}
		})
	} else {
		close(warm)
	}
	var wg sync.WaitGroup
	results := make([]string, n)
	sendTook := make([]time.Duration, n)
	for i, g := range reqs {
		i, g := i, g
		wg.Add(1)
		pieces := []int{0, 1, 7, 100, 1460}[t.Choice(5, "clientpiece")]
		pause := []time.Duration{0, 0, time.Millisecond, 50 * time.Millisecond}[t.Choice(4, "clientpause")]
		w.K.Spawn(fmt.Sprintf("client%d", i), func() {
			defer wg.Done()
			<-warm
			c, err := sim.Dial("tcp", "proxy:80")
			if err != nil {
				results[i] = "dial: " + err.Error()
				return
			}
			defer c.Close()
			wire := g.wire()
			go func() {
				t0 := w.K.Now()
				defer func() { sendTook[i] = w.K.Now() - t0 }()
				// the client's own segmentation and pauses
				if g.SlowBody {
					hl := bytes.Index(wire, []byte("\r\n\r\n")) + 4
					c.Write(wire[:hl])
					time.Sleep(300 * time.Millisecond)
					c.Write(wire[hl:])
					return
				}
				if pieces == 0 {
					c.Write(wire)
					return
				}
				for off := 0; off < len(wire); {
					m := pieces
					if off+m > len(wire) {
						m = len(wire) - off
					}
					if _, err := c.Write(wire[off : off+m]); err != nil {
						return
					}
					off += m
					// the whole request must arrive well within the agent's proxy timeout
					if pause > 0 && (off < 300 || (w.Cfg == "slow" && off < 4000)) {
						time.Sleep(pause)
					}
				}
			}()
			br := bufio.NewReader(c)
			resp, err := http.ReadResponse(br, &http.Request{Method: g.Method})
			for err == nil && resp.StatusCode == 100 {
				// the interim answer to Expect: 100-continue
				resp, err = http.ReadResponse(br, &http.Request{Method: g.Method})
			}
			if err != nil {
				results[i] = "read: " + err.Error()
				return
			}
			if g.Expect {
				w.Probe("request_with_expect_continue")
			}
			io.Copy(io.Discard, resp.Body)
			results[i] = fmt.Sprintf("%d", resp.StatusCode)
		})
	}
	w.K.Spawn("controller", func() {
		wg.Wait()
		w.K.Stop()
	})
	w.K.MaxSteps = 3000000
	w.Sample = map[string]interface{}{"requests": n, "first": fmt.Sprintf("%s %s host=%s fields=%d body=%d chunked=%v", reqs[0].Method, reqs[0].Target, reqs[0].Host, len(reqs[0].Fields), len(reqs[0].Body), reqs[0].Chunked)}
	w.OnCheck(func() {
		for _, e := range w.K.Exits {
			w.Violation("crash", "node %s exited: %s", e.Node, e.Msg)
		}
		for i, g := range reqs {
			marker := fmt.Sprintf("/m%03d", i)
			var got *wireMsg
			cnt := 0
			for _, r := range rb.Reqs {
				parts := strings.SplitN(r.StartLine, " ", 3)
				if len(parts) == 3 && strings.Contains(parts[1], marker) {
					if bfault && r.Err != "" {
						// the head of the request arrived with a body that ends early although
						// the client sent the complete request
						w.Violation("body", "backend received a request whose body ended early although the client had sent it completely | %s %q: %s", g.Method, g.Target, r.Err)
						continue
					}
					if bfault && got != nil && !bytes.Equal(got.Body, g.Body) {
						continue // keep the first differing delivery for the report
					}
					got = r
					cnt++
				}
			}
			if bfault {
				// a request hit by the fault may fail as a whole (502) or be delivered twice;
				// every complete delivery must be the client's request
				if got == nil {
					continue
				}
				if results[i] == "200" {
					w.Probe("resent_after_backend_close")
				}
				cnt = 1
				if results[i] != "200" {
					results[i] = "200"
				}
			}
			if results[i] != "200" && w.Cfg == "slow" {
				// a request that takes longer to arrive than the agent's proxy timeout
				// may fail as a whole; only what reaches the backend is compared
				continue
			}
			if results[i] != "200" {
				w.Violation("progress", "a well-formed request did not complete with the backend's 200 | client %d: %s; request %s %q", i, results[i], g.Method, g.Target)
				continue
			}
			if w.Cfg == "slow" && cnt == 0 {
				continue
			}
			if got == nil || cnt != 1 {
				w.Violation("delivery", "request reached the backend %d times | %s %q", cnt, g.Method, g.Target)
				continue
			}
			if got.Err != "" {
				w.Violation("framing", "backend could not parse what it received | %s", got.Err)
				continue
			}
			parts := strings.SplitN(got.StartLine, " ", 3)
			if parts[0] != g.Method {
				w.Violation("method", "backend received a different method | sent %q got %q", g.Method, parts[0])
			}
			if parts[1] != g.Target {
				w.Violation("target", "backend received a different request target | sent %q got %q", g.Target, parts[1])
			}
			if h := got.values("Host"); len(h) != 1 || h[0] != g.Host {
				w.Violation("host", "backend received a different Host | sent %q got %q", g.Host, h)
			}
			named := connectionNamed(g.Fields)
			sent := fieldLists(g.Fields)
			recv := fieldLists(got.Fields)
			for name, vals := range sent {
				if hopByHop[name] || name == "proxy-connection" {
					continue
				}
				if named[name] {
					continue
				}
				if !equalStrings(vals, recv[name]) {
					w.Violation("header", "an end-to-end header field did not arrive with the same values in the same order | field %q sent %q got %q", name, vals, recv[name])
				}
			}
			for name := range recv {
				if hopByHop[name] && name != "transfer-encoding" && name != "connection" {
					w.Violation("hop-by-hop", "a hop-by-hop field was forwarded to the backend | %q: %q", name, recv[name])
				}
				if _, ok := sent[name]; !ok && name != "host" && name != "content-length" && name != "transfer-encoding" && name != "connection" {
					w.K.Count("added_field." + name)
				}
			}
			if !bytes.Equal(got.Body, g.Body) {
				if envOn("VERIF_LOG") {
					fmt.Fprintf(os.Stderr, "BACKEND GOT: %q %q body=%d trailers=%q\nCLIENT SENT: %.300q\n", got.StartLine, got.Fields, len(got.Body), got.Trailers, g.wire())
				}
				class := ""
				if sendTook[i] > 55*time.Second || sendTook[i] == 0 {
					class = " (the request body was still arriving when the agent's fetch of the request timed out and was retried)"
					w.Probe("slow_body_refetched")
				}
				w.Violation("body", "backend received a different body%s | %s sent %d bytes got %d (chunked by client: %v)", class, g.Method, len(g.Body), len(got.Body), g.Chunked)
			}
			if len(g.Body) >= 4096 {
				w.Probe("body_at_least_4096")
			}
			if strings.Contains(g.Target, "%") {
				w.Probe("escaped_target")
			}
			if len(g.Fields) > 0 {
				w.Probe("custom_fields")
			}
		}
	})
}

func equalStrings(a, b []string) bool {
	if len(a) != len(b) {
		return false
	}
	for i := range a {
		if a[i] != b[i] {
			return false
		}
	}
	return true
}
