package harness

import (
	"bytes"
	"fmt"

	"io"
	"net/http"
	"net/url"
	"strings"
	"sync"
	"time"
	"verif/sim"
)

func init() { register("C13", worldC13) }

var openURLs = []string{
	"ws://example.test/sock?x=1",
	"wss://example.test/sock",
	"http://evil.example:8443/steal?y=2",
	"//evil.example/scheme-relative?q",
	"/path/only?z=3",
	"path-no-slash",
	"x:y",
	"mailto:someone@evil.example",
	"javascript:alert(1)",
	"ws:evil.example:9999/opaque",
	"",
	"ws://user:pass@evil.example/with-userinfo",
	"ws://[::1]:9999/ipv6",
	"ws://[fe80::1%25eth0]/zone",
	"ws://evil.example:0/port0",
	"ws://evil.example:65535/maxport",
	"ws://evil.example:99999/badport",
	"ws://127.0.0.1:22/ssh",
	"ws://169.254.169.254/computeMetadata/v1/",
	"ws://localhost:8081/other-local-port",
	"ws://example.test/a%2Fb/%20?q=%26",
	"ws://example.test/sock#fragment",
	"ws://example.test/../../etc/passwd",
	"http://evil.example/\x00nul",
	"ws://evil.example/\r\nHost: injected",
	"%zz",
	"ws://%41.example/",
	"ws://evil.example/?a=b&c=d#f",
	"unix:///var/run/docker.sock",
	"file:///etc/passwd",
	"ws://evil.example",
	"?only=query",
	"#onlyfragment",
	"ws://evil.example:8080@other.example/confusing",
	"ws:///triple",
	":",
	"://",
	"ws://[::1/unterminated",
	"ws://example.test/redirect-me?to=foreign",
	"ws://anything//evil.example:8080/ws",
	"ws://example.test//evil.example/double-slash-path",
	"//example.test//evil.example/x",
	"///evil.example/triple",
	"ws://example.test/%2F%2Fevil.example/escaped",
	"ws://example.test/a/..//evil.example/x",
	"ws://example.test/@evil.example/at",
	"ws://example.test\\evil.example/backslash",
	"/redirect-me/deeper?x=1",
	// relative references whose first segment could continue the configured authority
	"@evil.example/at-first",
	"5/digits-first?x=1",
	"0",
	"80/x",
	".evil.example/dot-first",
	"-evil.example/dash-first",
	"%40evil.example/escaped-at",
	":9999/colon-first",
	"evil.example:9/rel-with-colon",
	"..evil.example",
	"[::1]:80/bracket-first",
}

// worldC13: whatever URL a client puts into a shim open request, the only
// peer any goroutine of the agent dials is the configured backend.
func worldC13(w *World) {
	t := w.T
	w.K.ChaosMult = []int{2, 1, 4}[t.Choice(3, "chaos")]
	rewriteHost := t.Choice(2, "rewritehost") == 1
	sessions := t.Choice(2, "sessions") == 1
	n := t.Range(1, 6, "opens")
	var bodies []string
	for i := 0; i < n; i++ {
		if t.Rare(1, 5, "randombytes") {
			bodies = append(bodies, string(t.Sub("bytes").Bytes(t.Range(1, 40, "len"))))
		} else {
			bodies = append(bodies, openURLs[t.Choice(len(openURLs), "url")])
		}
	}
	nOther := t.Range(0, 3, "nonshim")
	// the first dial(s) of the configured backend may be refused (backend restarting)
	refuse := t.Pick("refusedials", 5, 1, 1)
	if refuse > 0 {
		nOther = 0 // (ordinary requests would hit the refusals too)
		for i := 0; i < refuse; i++ {
			w.K.Faults = append(w.K.Faults, &sim.NetFault{ToAddr: "agenthost:8080", ConnOrd: i, Kind: sim.FaultRefuse})
		}
		w.Probe("backend_dial_refused")
	}
	// many sessions with a long poll pending on each, then ordinary requests
	many := refuse == 0 && t.Rare(1, 8, "manysessions")
	if many && nOther == 0 {
		nOther = 2
	}
	startProxy(w)
	wb := startWSBackend(w)
	args := []string{"-shim-websockets", "-shim-path=shim"}
	if rewriteHost {
		args = append(args, "-rewrite-websocket-host")
	}
	if sessions {
		args = append(args, "-session-cookie-name=psess")
	}
	startAgent(w, args...)
	var wg sync.WaitGroup
	manyReady := make(chan struct{})
	if many {
		w.K.Spawn("manybrowser", func() {
			sc := newShimClient(w, 1)
			var ids []string
			for i := 0; i < 40; i++ {
				st, rep, _, err := sc.open(fmt.Sprintf("ws://example.test/sock?x=1&many=%d", i))
				if err == nil && st == 200 && rep != nil {
					ids = append(ids, rep.ID)
				}
			}
			for _, id := range ids {
				id := id
				go sc.poll(id, 1)
			}
			time.Sleep(time.Second)
			w.Probe("many_pending_polls")
			close(manyReady)
		})
	} else {
		close(manyReady)
	}
	statuses := make([]int, n)
	replies := make([]string, n)
	for i, b := range bodies {
		i, b := i, b
		wg.Add(1)
		w.K.Spawn(fmt.Sprintf("browser%d", i), func() {
			defer wg.Done()
			sc := newShimClient(w, 1)
			st, rb, err := sc.call("open", []byte(b))
			statuses[i] = st
			replies[i] = string(rb)
			if err != nil {
				statuses[i] = -1
				replies[i] = err.Error()
			}
		})
	}
	// requests outside the shim prefix go to the normal path untouched
	otherPaths := []string{"/shimmy/open", "/other/shim/open", "/", "/shi", "/SHIM/open", "/shim", "/data", "/shim-assets/app.js", "/shim.js", "/shim2/data", "/shimopen"}
	otherGot := make([]string, nOther)
	otherPath := make([]string, nOther)
	otherEcho := make([][]byte, nOther)
	otherSeen := make([]string, nOther)
	otherBody := make([][]byte, nOther)
	for i := 0; i < nOther; i++ {
		i := i
		p := otherPaths[t.Choice(len(otherPaths), "otherpath")]
		otherBody[i] = []byte(fmt.Sprintf("ws://evil.example/nonshim-%d", i))
		otherPath[i] = p
		wg.Add(1)
		w.K.Spawn(fmt.Sprintf("other%d", i), func() {
			defer wg.Done()
			<-manyReady
			cl := w.Client()
			cl.CheckRedirect = func(*http.Request, []*http.Request) error { return http.ErrUseLastResponse }
			req, _ := http.NewRequest("POST", "http://proxy:80"+p+"?t=other"+fmt.Sprint(i), bytes.NewReader(otherBody[i]))
			req.Header.Set("X-Token", fmt.Sprintf("other%d", i))
			resp, err := cl.Do(req)
			if err != nil {
				otherGot[i] = "ERR " + err.Error()
				return
			}
			otherEcho[i], _ = io.ReadAll(resp.Body)
			resp.Body.Close()
			otherSeen[i] = resp.Header.Get("X-Seen-Path")
			otherGot[i] = fmt.Sprintf("%d %s", resp.StatusCode, p)
		})
	}
	// a backend that answers some websocket handshakes with a redirect elsewhere
	wb.rb.Pre = func(rw http.ResponseWriter, r *http.Request) bool {
		if strings.HasPrefix(r.URL.Path, "/redirect-me") {
			w.Probe("backend_redirects_handshake")
			rw.Header().Set("Location", []string{"http://evil.example:8080/stolen", "//evil.example/stolen", "ws://evil.example/stolen"}[len(r.URL.Path)%3])
			rw.WriteHeader([]int{302, 301, 307, 308}[len(r.URL.RawQuery)%4])
			return true
		}
		return false
	}
	wb.rb.OnHTTP = func(rw http.ResponseWriter, r *http.Request) {
		b, _ := io.ReadAll(r.Body)
		rw.Header().Set("X-Body-Len", fmt.Sprint(len(b)))
		rw.Header().Set("X-Seen-Path", r.URL.Path)
		rw.Write(b)
	}
	w.K.Spawn("controller", func() {
		wg.Wait()
		time.Sleep(time.Second)
		w.K.Stop()
	})
	w.Sample = map[string]interface{}{"open_bodies": fmt.Sprintf("%q", bodies), "rewrite_host": rewriteHost, "sessions": sessions}
	w.OnCheck(func() {
		for _, e := range w.K.Exits {
			w.Violation("crash", "node %s exited: %s", e.Node, e.Msg)
		}
		// every dial made by the agent's host
		for _, d := range w.K.DialLog {
			if d.From != "agenthost" {
				continue
			}
			if d.Resolved != "proxy:80" && d.Resolved != "agenthost:8080" {
				w.Violation("confinement", "the agent dialled a peer other than the configured backend | address %q (resolved %s); open bodies in this run: %.200q", d.Raw, d.Resolved, bodies)
			}
		}
		for i, st := range statuses {
			if st != 200 && st != 400 && st != 500 {
				w.Violation("status", "open was answered with an unexpected status | body %.60q: %d %s", bodies[i], st, replies[i])
			}
			if st == 200 {
				w.Probe("open_succeeded")
			}
			if st == 400 || st == 500 {
				w.Probe("open_rejected")
			}
		}
		// handshakes seen by the backend carry only path and query of some supplied URL
		for _, s := range wb.Sessions {
			ok := many && strings.HasPrefix(s.Path, "/sock?x=1&many=")
			for _, b := range bodies {
				if pathQueryMatches(b, s.Path) {
					ok = true
				}
			}
			// the Host of the handshake is the configured backend's, or (with host
			// rewriting) the one the client used for the shim request - never an
			// authority taken from the supplied URL
			if s.Host != "example.test" && s.Host != "agenthost:8080" && s.Host != "localhost:8080" {
				w.Violation("target", "the websocket handshake at the backend carries a Host taken from the supplied URL | Host %q (rewrite-websocket-host=%v; bodies %.200q)", s.Host, rewriteHost, bodies)
			}
			if rewriteHost {
				w.Probe("handshake_with_rewritten_host")
			}
			if !ok {
				w.Violation("target", "the websocket handshake at the backend has a path/query that no supplied URL contains | %q (bodies %.200q)", s.Path, bodies)
			}
		}
		for i := 0; i < nOther; i++ {
			if strings.HasPrefix(otherGot[i], "ERR") {
				w.Violation("passthrough", "a request outside the shim prefix failed | %s", otherGot[i])
			}
			w.Probe("non_shim_request")
			// "/shim" itself is the prefix without its slash (the mux redirects it);
			// everything else here is outside "/shim/" and must be the backend's own answer
			if p := otherPath[i]; p != "/shim" && !strings.HasPrefix(otherGot[i], "ERR") {
				up, _ := url.PathUnescape(p)
				if !strings.HasPrefix(otherGot[i], "200 ") || !bytes.Equal(otherEcho[i], otherBody[i]) || otherSeen[i] != up {
					w.Violation("passthrough", "a request outside the shim prefix was not handled by the normal HTTP path | %s: answered %q, backend saw path %q, body echoed %v", p, otherGot[i], otherSeen[i], bytes.Equal(otherEcho[i], otherBody[i]))
				}
				if strings.HasPrefix(p, "/shim") {
					w.Probe("sibling_of_shim_prefix")
				}
			}
		}
	})
}

// pathQueryMatches reports whether reqURI (as seen by the backend) can be the
// path and query of the client-supplied URL text: unescaped, its path and its
// query must both occur in the (unescaped) supplied text.
func pathQueryMatches(supplied, reqURI string) bool {
	path, query := reqURI, ""
	if i := strings.Index(reqURI, "?"); i >= 0 {
		path, query = reqURI[:i], reqURI[i+1:]
	}
	un := func(s string) string {
		if u, err := url.PathUnescape(s); err == nil {
			return u
		}
		return s
	}
	sup := supplied + "\x00" + un(supplied)
	p := strings.TrimPrefix(un(path), "/")
	if p != "" && !strings.Contains(sup, p) {
		return false
	}
	if query != "" && !strings.Contains(sup, query) && !strings.Contains(sup, un(query)) {
		return false
	}
	return true
}
