#!/bin/bash
# usage: mutant.sh <patch.diff> <property> [budget]
# Applies a patch to a scratch copy of /repo (outside /repo and /verif), runs the
# property's quick check against it, removes the copy. Exit status is the check's.
set -u
P=$(realpath "$1"); PROP=$2; BUD=${3:-30}
D=$(mktemp -d /tmp/mut.XXXXXX)
trap 'rm -rf "$D"' EXIT
rsync -a --exclude .git /repo/ "$D/"
(cd "$D" && patch -p1 -s < "$P") || { echo "patch failed"; exit 3; }
cd /verif
VERIF_REPO="$D" VERIF_EVIDENCE_DIR="$D/evidence" VERIF_REPLAY_DIR="${VERIF_REPLAY_DIR:-$D/replays}" ./bin/vcheck run -prop "$PROP" -budget "$BUD" 2>&1 | tail -8
exit ${PIPESTATUS[0]}
