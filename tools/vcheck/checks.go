package main

// Leg is one configuration of a world explored for a property.
type Leg struct {
	World  string // harness world name, optionally "/config"
	Race   bool   // run the -race binary (unordered-access monitor)
	Weight int    // share of the time budget
}

type Check struct {
	Legs        []Leg
	Probes      []string // probe counters that must be non-zero over the batch
	Rule        string
	Assumptions []string
	RealStub    map[string]string
}

var commonAssumptions = []string{
	"testing/synctest fake clock and quiescence detection (go1.26.8) are correct",
	"runtime overlay (fixed runtime seed, no run-queue shuffling, mutex wait counted as idle in the bubble, goroutine-id accessors) does not change the semantics of the code under test",
	"SimNet models TCP as reliable in-order byte streams with resets, half-close and back-pressure; no byte loss/duplication/reordering inside a connection",
	"interleavings inside library code (net/http, gorilla/websocket, lru) are not enumerated; unsynchronised sharing there is caught by the race-detector leg",
	"seeded sampling: a clean batch is evidence, not proof",
}

var coreRealStub = map[string]string{
	"server/server.go (proxy main)":                 "real (instrumented copy of the working tree: yields + seams)",
	"agent/agent.go (agent main) and agent/*":        "real (instrumented copy of the working tree)",
	"net/http client/server, httputil.ReverseProxy": "real, unmodified",
	"gorilla/websocket, groupcache/lru, cookiejar":   "real, unmodified",
	"TCP/IP sockets":                                 "SimNet (in-memory, driver-scheduled)",
	"time":                                           "synctest bubble clock",
	"flags, os.Exit/log.Fatal, signals":              "sim stand-ins",
	"Google credentials / GCE metadata":              "stub (plain client over SimNet, not on GCE)",
	"Cloud Monitoring":                               "disabled (no project configured)",
	"clients, backends":                              "harness peers",
}

var checks = map[string]*Check{
	"C01": {
		Legs: []Leg{
			{World: "C01", Weight: 3},
			{World: "C01", Race: true, Weight: 3},
			{World: "C01/faulty", Weight: 2},
		},
		Probes:      []string{"concurrent_clients"},
		Rule:        "Workload: 2..8 (thorough: ..48) concurrent clients with unique tokens in path, query, header and body; sizes across buffer boundaries; backend latency per request; oracle compares status/header/body/trailer against the client's own token and counts backend invocations per token.",
		Assumptions: commonAssumptions,
		RealStub:    coreRealStub,
	},
	"C04": {
		Legs: []Leg{
			{World: "C04", Weight: 3},
			{World: "C04/faulty", Weight: 2},
			{World: "C04/window", Weight: 1},
			{World: "C04b", Weight: 2},
			{World: "C04b/faulty", Weight: 2},
			{World: "C04b", Race: true, Weight: 1},
		},
		Probes:      []string{"id_listed_more_than_once", "concurrent_pollers", "window_relist", "poller_aborted"},
		Rule:        "(a) real agent vs scripted fake proxy: pending-list replies repeat/permute/overlap 2..12 (thorough ..60) request IDs, plus a dedup-window leg re-listing an ID after up to 998 other IDs; counting backend; fetch/upload 5xx in the faulty leg. (b) real proxy with 2..5 concurrent harness pollers (some abandoning the list call) and 2..10 (..40) clients; every ID must be reported in exactly one list reply.",
		Assumptions: commonAssumptions,
		RealStub:    coreRealStub,
	},
}
