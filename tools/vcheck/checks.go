package main

// Leg is one configuration of a world explored for a property.
type Leg struct {
	World  string // harness world name, optionally "/config"
	Race   bool   // run the -race binary (unordered-access monitor)
	Weight int    // share of the time budget (thorough tier, explicit -budget)
	Quick  int    // runs in the quick tier: a fixed quota, so that the work done (and what it can detect) does not depend on how fast the machine is
}

type Check struct {
	Legs        []Leg
	Probes      []string // probe counters that must be non-zero over the batch
	Rule        string
	Assumptions []string
	RealStub    map[string]string
}

var commonAssumptions = []string{
	"testing/synctest fake clock and quiescence detection (go1.26.8) are correct",
	"runtime overlay (fixed runtime seed, no run-queue shuffling, mutex wait counted as idle in the bubble, goroutine-id accessors) does not change the semantics of the code under test",
	"SimNet models TCP as reliable in-order byte streams with resets, half-close and back-pressure; no byte loss/duplication/reordering inside a connection",
	"interleavings inside library code (net/http, gorilla/websocket, lru) are not enumerated; unsynchronised sharing there is caught by the race-detector leg",
	"seeded sampling: a clean batch is evidence, not proof",
}

var coreRealStub = map[string]string{
	"server/server.go (proxy main)":                 "real (instrumented copy of the working tree: yields + seams)",
	"agent/agent.go (agent main) and agent/*":       "real (instrumented copy of the working tree)",
	"net/http client/server, httputil.ReverseProxy": "real, unmodified",
	"gorilla/websocket, groupcache/lru, cookiejar":  "real, unmodified",
	"TCP/IP sockets":                    "SimNet (in-memory, driver-scheduled)",
	"time":                              "synctest bubble clock",
	"flags, os.Exit/log.Fatal, signals": "sim stand-ins",
	"Google credentials / GCE metadata": "stub (plain client over SimNet, not on GCE)",
	"Cloud Monitoring":                  "disabled (no project configured)",
	"clients, backends":                 "harness peers",
}

var checks = map[string]*Check{
	"C01": {
		Legs: []Leg{
			{World: "C01", Weight: 3, Quick: 5200},
			{World: "C01", Race: true, Weight: 3, Quick: 1100},
			{World: "C01/faulty", Weight: 2, Quick: 2900},
			{World: "C01/restart", Weight: 2, Quick: 3100},
		},
		Probes:      []string{"concurrent_clients", "keepalive_followup_request", "unannounced_trailers", "requests_after_proxy_restart", "clients_hang_up_mid_response_before_the_others_start"},
		Rule:        "Workload: 2..8 (thorough: ..48) concurrent clients with unique tokens in path, query, header and body; sizes across buffer boundaries; backend latency per request; a quarter of the clients send a follow-up request on their kept-alive connection; oracle compares status/header/body/trailer against the client's own token and counts backend invocations per token. Later additions: responses with announced, unannounced or no trailers; a leg in which the proxy process is killed and restarted behind the same address while the agent keeps running; clients that read a few KiB of a large response and hang up before the others start, some of which read slowly.",
		Assumptions: commonAssumptions,
		RealStub:    coreRealStub,
	},
	"C04": {
		Legs: []Leg{
			{World: "C04", Weight: 3, Quick: 5200},
			{World: "C04/faulty", Weight: 2, Quick: 3800},
			{World: "C04/window", Weight: 1, Quick: 310},
			{World: "C04b", Weight: 2, Quick: 3000},
			{World: "C04b/faulty", Weight: 2, Quick: 170},
			{World: "C04b", Race: true, Weight: 1, Quick: 370},
		},
		Probes:      []string{"id_listed_more_than_once", "concurrent_pollers", "window_relist", "relisted_every_time", "poller_aborted", "half_closed_poller", "backend_reset_after_executing_post_on_reused_connection", "proxy_outage_of_many_polls", "burst_of_waiting_requests", "shim_open_requests_among_the_listed_ids"},
		Rule:        "(a) real agent vs scripted fake proxy: pending-list replies repeat/permute/overlap 2..12 (thorough ..60) request IDs, plus a dedup-window leg re-listing an ID after up to 998 other IDs; counting backend; fetch/upload 5xx in the faulty leg. (b) real proxy with 2..5 concurrent harness pollers (some abandoning the list call) and 2..10 (..40) clients; every ID must be reported in exactly one list reply. Faulty leg also: a backend that executes a body-less POST and then resets the reused connection before answering (the request must not be sent again); an ID whose fetch answer is slow while the ID is listed again. Later additions: an outage of 2/9/13 failed list calls followed by a re-listing; bursts of 101..260 waiting client requests; with -shim-path, listed IDs that are shim opens whose websocket handshake the backend rejects (counted like any request).",
		Assumptions: commonAssumptions,
		RealStub:    coreRealStub,
	},
	"C05": {
		Legs:        []Leg{{World: "C05", Weight: 1, Quick: 15000}},
		Probes:      []string{"body_larger_than_buffers", "lockstep_multi_chunk", "through_wrapped_handler_chain", "declared_length_multi_chunk", "retry_while_streaming", "trickle_of_tiny_chunks", "upload_refused_before_response_started", "upload_starts_while_vm_identity_refresh_stalls", "stream_over_aged_http2_backend_connection", "shutdown_signal_while_streaming", "other_streams_open_when_the_stream_starts"},
		Rule:        "Real agent vs fake proxy that decodes the upload incrementally; lock-step backend flushes chunk i+1 only after the proxy saw chunk i; 1..12 (thorough ..200) chunks of 1 B..70 KiB (thorough ..2 MiB), pauses, agent handler chain drawn per run (sessions / banner / shim wrappers on or off), backend framing chunked or with a declared Content-Length, SimNet buffer sizes 1..256 KiB, latency 0..200 ms. Each chunk must be visible within 2 s + network time. Later additions: trickle mode (hundreds of 1..4-byte chunks), late first byte and refused first attempt, a VM identity refresh that stalls, an aged h2c backend connection, SIGTERM with a grace period in mid-stream, and four other long-lived streams open when the measured one starts.",
		Assumptions: commonAssumptions,
		RealStub:    coreRealStub,
	},
	"C08": {
		Legs:        []Leg{{World: "C08", Weight: 1, Quick: 21000}},
		Probes:      []string{"backoff_measured", "reached_cap", "direct_evaluation", "requests_in_flight_while_polls_fail", "agent_on_a_vm", "agent_without_proxy_timeout"},
		Rule:        "Real agent polling loop vs fake proxy with scripted list failures (5xx, 404, garbled JSON, truncated body, refused dial, hang until the 60 s client timeout) in runs of 1..16 (sometimes ..80) consecutive failures separated by successes; zero network latency so the gap is the back-off sleep; envelope 0.9..1.1 x min(2^k ms, 3 s). Retry counts the loop cannot reach (2^32, max uint, ...) are evaluated by direct calls (reported as probe direct_evaluation, not as simulated runs). Later additions: list connections dropped or reset before any answer, Retry-After on 429/503, replies cut after a 200 head, 401 on a VM, requests completing in the background while polls fail, -proxy-timeout=0.",
		Assumptions: commonAssumptions,
		RealStub:    coreRealStub,
	},
	"C20": {
		Legs:        []Leg{{World: "C20", Weight: 1, Quick: 23000}},
		Probes:      []string{"health_gated_start", "backend_unhealthy_at_startup", "unhealthy_exit_expected", "graceful_shutdown", "prompt_shutdown", "signal_during_list_call", "response_completed_during_grace", "signal_while_health_gated", "signal_while_list_calls_fail", "second_signal_during_grace_period", "health_check_answered_late", "failing_health_check_with_stalled_body"},
		Rule:        "Real agent main() with documented flags vs fake proxy and a backend with a scripted health endpoint: start-up failures / late listener, 0..24 periodic results with 0..80% failures, interval 1/2/5 s, threshold 1..4, health checks on/off; SIGINT or SIGTERM at 0..31 s after the first poll, grace 0/2/10/30 s, backend latency 0..20 s. Reference: consecutive-failure counter with reset; exit instants compared in simulated time (zero network latency). Also: a signal at a fixed time after start-up (while still health-gated), a second signal during the grace period, a pending-list endpoint that starts failing before the signal, and slow start-up credentials (signal before the first poll). Later additions: late health answers, failing checks whose body stalls, fractional grace periods.",
		Assumptions: commonAssumptions,
		RealStub:    coreRealStub,
	},
	"C09": {
		Legs:        []Leg{{World: "C09", Weight: 1, Quick: 18000}},
		Probes:      []string{"forged_user_id_with_forwarding", "authorization_with_stripping", "websocket_handshake_seen", "user_id_named_hop_by_hop_by_client", "identity_with_escapes", "upgrade_request_naming_the_user_id", "empty_identity_with_forged_header", "header_name_followed_by_space", "shim_open_url_with_user_info"},
		Rule:        "Real agent with all four combinations of -forward-user-id / -strip-credentials x shim x sessions vs fake proxy asserting a user per request and serving client requests that carry forged, repeated and odd-case X-Inverting-Proxy-User-ID and Authorization fields (also named in the client's Connection header), asserted identities containing + and %XX; 2..6 requests of several users in flight at once; plain HTTP and shim open (websocket handshake) observed at a recording backend. Later additions: empty asserted identities, plain upgrade requests, rejected first handshakes, own-then-forged repeated identity headers, plain paths sharing the shim prefix, header names with a space, shim open URLs with user info.",
		Assumptions: commonAssumptions,
		RealStub:    coreRealStub,
	},
	"C06": {
		Legs: []Leg{
			{World: "C06", Weight: 4, Quick: 8800},
			{World: "C06/nofault", Weight: 1, Quick: 2000},
			{World: "C06", Race: true, Weight: 2, Quick: 1400},
		},
		Probes:      []string{"early_5xx_while_body_streaming", "retry_attempt_seen", "backend_answers_late", "agent_on_a_vm"},
		Rule:        "Real agent (response forwarder + http.Transport) vs a byte-level fake proxy: per upload attempt a scripted fault {5xx, reset, close, none} at a byte offset of the raw request stream (header block, body offset 0/1/around 4096/anywhere/after the terminating chunk), 5xx answered while the body is still streaming with or without draining; response sizes placing the serialised upload around the 4096-byte replay buffer, tiny and large; SimNet buffers 512 B..64 KiB park the previous attempt's body writer. Oracle: every acknowledged complete attempt parses to exactly the backend's response; at most 3 attempts; no forwarder goroutine blocked at the end. The backend may answer only after 2 s / 20 s (every upload attempt may have failed by then: nothing of the finished upload may stay blocked). Later additions: Retry-After on 503 answers; the agent on a simulated VM whose identity token changes on every fetch, with 401 as an answer kind.",
		Assumptions: commonAssumptions,
		RealStub:    coreRealStub,
	},
	"C02": {
		Legs:        []Leg{{World: "C02", Weight: 5, Quick: 7500}, {World: "C02/slow", Weight: 2, Quick: 2900}, {World: "C02/bfault", Weight: 2, Quick: 3200}},
		Probes:      []string{"body_at_least_4096", "escaped_target", "custom_fields", "agent_with_shim_mounted", "request_with_expect_continue"},
		Rule:        "Raw TCP client (exact bytes, tape-chosen write sizes and pauses) -> real proxy -> real agent -> raw recording backend with an independent wire parser; 1..4 requests in flight; generated methods (incl. extension tokens), origin-form targets with escapes / dot segments / queries without ';', Host variants, 0..8 header fields with repeats, empty and long values, hop-by-hop fields, bodies 0..70 KiB (thorough ..5 MiB) by Content-Length or chunked; SimNet segmentation up to 1-byte segments. Input-dominated: the simulator contributes segmentation, pauses and concurrent traffic. Later additions: form bodies, a backend dial refused once, the shim mounted with Accept-Encoding lists, bodies announced with Expect: 100-continue.",
		Assumptions: commonAssumptions,
		RealStub:    coreRealStub,
	},
	"C03": {
		Legs:        []Leg{{World: "C03", Weight: 3, Quick: 8700}, {World: "C03", Race: true, Weight: 2, Quick: 1500}, {World: "C03h2", Weight: 2, Quick: 5700}, {World: "C03h2", Race: true, Weight: 1, Quick: 770}},
		Probes:      []string{"interim_1xx", "several_declared_trailers", "trailers", "one_byte_first_write", "bodiless_response", "http2_backend", "response_head_after_half_a_minute", "trailer_section_of_several_kilobytes"},
		Rule:        "Raw client -> real proxy -> real agent -> raw scripted backend writing exact wire bytes with scripted pacing: final status 200..599 (incl. 204/304 and HEAD), 0..2 interim 1xx, 0..7 header fields with repeats (Set-Cookie), empty and long values, hop-by-hop fields, framing by Content-Length / chunked / close, bodies 0..70 KiB (thorough ..4 MiB) written in pieces from 1 byte, 0..3 declared trailers (one comma-joined Trailer field or one field each) and undeclared trailers; 1..4 responses in flight; race-detector leg for the maps shared between handler and serialiser. Second pair of legs: the same oracle with an HTTP/2 cleartext backend (agent -force-http2, real http.Server behind h2c; no 1xx, no hop-by-hop fields, no close-delimited framing). Later additions: heads that arrive 32 s late, trailer blocks of several KB, late HTML bodies through the wrapper chain.",
		Assumptions: commonAssumptions,
		RealStub:    coreRealStub,
	},
	"C11": {
		Legs:        []Leg{{World: "C11", Weight: 3, Quick: 1500}, {World: "C11/nobig", Race: true, Weight: 1, Quick: 360}},
		Probes:      []string{"both_directions", "idle_poll_408", "data_post_more_than_10", "poll_returned_more_than_10", "injection_applied", "concurrent_sessions", "backend_closed_after_last_message", "session_opened_after_another_closed", "close_behind_backlog", "data_post_above_2_mib"},
		Rule:        "Harness shim client (protocol of the injected script: open, then one data post and one poll outstanding at a time, close) -> real proxy -> real agent (shim handlers, relay goroutines) -> real gorilla websocket backend. one or two concurrent sessions; 0..30 (thorough ..120) messages per direction and session: ASCII/UTF-8 text, arbitrary binary, JSON documents; sizes 0..40 KB (thorough ..1 MiB); batches of 1..25 messages per data post; pauses up to 21 s (idle polls end in 408); protocol version 0/1/absent; header injection on in a third of the runs. Two FIFO reference queues compared at quiescence. Also: browsers running two sessions one after the other while another session is in use, backends that close after their last message, ignore the closing handshake or read slowly behind small socket buffers, and a close issued at once behind a backlog of accepted messages. Later additions: data posts above 2 MiB (plain leg), resource.headers entries present with empty, null or non-string values.",
		Assumptions: commonAssumptions,
		RealStub:    coreRealStub,
	},
	"C12": {
		Legs:        []Leg{{World: "C12", Weight: 3, Quick: 9800}, {World: "C12", Race: true, Weight: 2, Quick: 1600}},
		Probes:      []string{"concurrent_calls", "double_close_same_instant", "data_racing_close", "backend_closed_first", "odd_message_types", "backend_ignores_closing_handshake", "overlapping_opens", "stalled_backend_on_other_session", "data_after_backend_closed", "batch_with_a_bad_session_entry", "open_against_backend_that_never_answers_the_handshake", "shim_posts_without_content_length"},
		Rule:        "1..2 shim sessions and 2..10 data/poll/close calls with valid, unknown, malformed and empty arguments, most of them issued at the same simulated instant so that the scheduler interleaves them at the yield points inside the shim handlers and the connection (data vs close, close vs close, poll vs backend close); in a third of the runs the backend sends 0..14 messages and closes first. Every call must be answered with 200/400/408/500; calls after an answered close must get 400; crash monitor + race-detector leg. Also: overlapping opens against a slow handshake, a backend that ignores the closing handshake, a data call seconds after the backend closed (must be 400 when nothing was queued), and a second session whose calls must be answered while the first session's backend has stopped reading. Later additions: batches whose second entry names no session, an open against a backend that never answers the handshake, shim posts with chunked transfer encoding.",
		Assumptions: commonAssumptions,
		RealStub:    coreRealStub,
	},
	"C13": {
		Legs:        []Leg{{World: "C13", Weight: 1, Quick: 14000}},
		Probes:      []string{"open_succeeded", "open_rejected", "non_shim_request", "backend_redirects_handshake", "sibling_of_shim_prefix", "backend_dial_refused", "many_pending_polls", "handshake_with_rewritten_host"},
		Rule:        "1..6 concurrent shim open requests whose bodies come from a URL grammar (absolute, scheme-relative, path-only, opaque scheme:rest, empty, userinfo, IPv6 literals, odd ports, foreign and link-local hosts, control bytes) or are random byte strings, plus 0..3 requests on look-alike paths outside the shim prefix; closed-world SimNet records every address any goroutine of the agent's host dials. Input-dominated: the simulator's contribution is that no dial can escape observation. Later additions: refused first dials, 40 sessions with pending polls, the Host of the handshake, non-canonical paths outside the shim prefix.",
		Assumptions: commonAssumptions,
		RealStub:    coreRealStub,
	},
	"C10": {
		Legs:        []Leg{{World: "C10", Weight: 3, Quick: 5100}, {World: "C10/lru", Weight: 3, Quick: 3800}, {World: "C10", Race: true, Weight: 2, Quick: 740}, {World: "C10/lru", Race: true, Weight: 1, Quick: 240}},
		Probes:      []string{"session_issued", "cookies_restored", "concurrent_sessions", "lru_eviction", "late_response_after_eviction", "interim_1xx", "public_suffix_domain_cookie", "session_cookie_presented_twice", "follow_up_before_body_is_read", "concurrent_requests_in_uncached_session", "empty_session_cookie_presented", "shimmed_websocket_open_in_a_session", "set_cookie_line_the_parser_rejects"},
		Rule:        "1..4 (LRU leg: 3..6 with a window of 2) modelled browsers send 2..8 scripted requests over three hosts and four paths through real proxy and agent (-session-cookie-name) to a backend emitting generated Set-Cookie operations (set, overwrite, Path/Domain scoped, Max-Age, Secure/HttpOnly, delete, expired), with simulated gaps across expiry instants, then a burst of concurrent requests in all sessions plus two in one session. Reference: one independent net/http/cookiejar per modelled session on the same clock; values carry the session's tag so any foreign value is a leak. Also: interim 1xx before the final response, Domain=<public suffix> cookies on hosts under one- and two-label suffixes, clients presenting the session cookie twice, a follow-up request issued as soon as the response header has arrived (with a 200 KB banner page still unread), and two simultaneous requests of a session that has dropped out of the cache. Later additions: unparsable Set-Cookie lines, empty session cookies, shimmed opens inside sessions.",
		Assumptions: commonAssumptions,
		RealStub:    coreRealStub,
	},
	"C14": {
		Legs:        []Leg{{World: "C14", Weight: 1, Quick: 21000}},
		Probes:      []string{"shim_script_injected", "banner_frame_served", "non_html_untouched", "already_framed_original_body", "head_straddles_first_kilobyte", "interim_1xx", "encoded_body_passed_through", "html_body_starts_late", "two_navigations_to_one_path_with_different_queries"},
		Rule:        "Raw client -> real proxy -> real agent with -inject-banner and/or -shim-websockets -> raw scripted backend; the backend's own response is the reference. Generated: method, Accept, Sec-Fetch-Dest/Mode, Referer; status; Content-Type from unambiguous HTML and non-HTML families; Content-Disposition; bodies with <head> at offsets around 0 and the first kilobyte, repeated, upper-case or truncated; backend write boundaries through <head>; SimNet segmentation up to 80%. Input-dominated; the simulated dimension is how the body is split across reads. Later additions: interim 1xx, Content-Encoding, late first body byte, odd Content-Disposition parameters, non-canonical paths, two navigations to one path with different queries.",
		Assumptions: commonAssumptions,
		RealStub:    coreRealStub,
	},
	"C07": {
		Legs:        []Leg{{World: "C07", Weight: 3, Quick: 4000}, {World: "C07fp", Weight: 3, Quick: 6400}, {World: "C07", Race: true, Weight: 2, Quick: 510}, {World: "C07fp", Race: true, Weight: 1, Quick: 560}},
		Probes:      []string{"failures_among_healthy_requests", "backend_unreachable_502", "shim_enabled", "proxy_side_failures_among_healthy_requests", "http2_backend_unreachable", "shim_posts_without_content_length"},
		Rule:        "(real-proxy leg) 2..8 healthy concurrent requests next to 1..5 sabotaged ones: backend reset before headers / mid body, close mid chunk, garbage instead of HTTP, malformed header or chunk, hang then close, malformed shim input (open/data/poll/close) when the shim is on; then a window with every backend dial refused (client must get 502); then a probe. (fake-proxy leg) pending lists with 5xx / garbled JSON / HTML / > 1 MB replies between good ones, fetches rejected, truncated, garbage, without or with a bad start time, reset; uploads rejected or reset - each for chosen request IDs only; healthy IDs and a later probe must be served. Crash monitor and race-detector legs. Shim sabotage also: data posts racing the close of the same session (with a backend that has stopped reading), a backend that says goodbye and hangs up before the first poll; fake-proxy leg: uploads answered early (400/503) while the response is still streaming. Later additions: an h2c backend with -force-http2 -debug, a backend that ends a shim session with a close frame while client data is backed up, invalid websocket frames, shim posts with chunked transfer encoding.",
		Assumptions: commonAssumptions,
		RealStub:    coreRealStub,
	},
	"C15": {
		Legs:        []Leg{{World: "C15", Weight: 3, Quick: 2100}, {World: "C15", Race: true, Weight: 1, Quick: 190}},
		Probes:      []string{"both_directions_at_once", "concurrent_connections", "stream_larger_than_64k", "passthrough_request", "server_speaks_first", "slow_reader_with_bulk_data", "orderly_end_of_both_directions", "slow_passthrough_upload", "reader_stalled_for_20s_with_data_backed_up", "client_embeds_the_bridge_as_a_library", "websocket_leg_through_http_intermediary", "intermediary_without_half_close"},
		Rule:        "TCP clients -> real tcp-bridge-frontend main() -> websocket over SimNet through the real h2c-wrapped tcp-bridge-backend main() -> harness TCP server. 1..4 (thorough ..32) connections, per direction 0..6 writes of 0 B..70 KB (all 256 byte values), reader buffers 1 B..100 KB, both directions at once, SimNet buffers 1..64 KiB and segmentation up to 70%; plus plain HTTP POSTs to the bridge backend for the pass-through clause. Also: server-speaks-first connections, readers that stall for 1.5 s / 4 s, and connections on which both peers end their direction in an orderly way (half-close, read to the end, close) - nothing may be lost. Later additions: readers stalling 21 s, the websocket leg through an HTTP intermediary (stock reverse proxy, or one without half-close), slow pass-through uploads, non-canonical pass-through paths, and clients that embed the bridge as a library (DialWebsocket, empty writes included).",
		Assumptions: commonAssumptions,
		RealStub: map[string]string{
			"utils/tcpbridge/tcp-bridge-frontend (main), tcp-bridge-backend (main), connection": "real (instrumented copy of the working tree)",
			"gorilla/websocket, x/net/http2/h2c, net/http, httputil.ReverseProxy":               "real, unmodified",
			"TCP/IP sockets":           "SimNet (in-memory, driver-scheduled)",
			"time":                     "synctest bubble clock",
			"flags, os.Exit/log.Fatal": "sim stand-ins",
			"TCP clients, TCP server behind the bridge": "harness peers",
		},
	},
	"C16": {
		Legs:        []Leg{{World: "C16", Weight: 1, Quick: 16000}},
		Probes:      []string{"one_side_closed_first", "several_connections", "graceful_close_complete_data", "graceful_close_slow_reader_bulk_data", "tcp_server_down", "next_hop_never_answers_the_handshake", "websocket_leg_through_http_intermediary", "intermediary_without_half_close"},
		Rule:        "Same world as C15; per connection the client, the server or both close after their writes with a delay of 0..5 s relative to data in flight in either direction. Liveness in simulated time: the surviving peer must see end-of-stream within 60 s after having received everything sent before the close; SimNet's connection table is the counter for leaked bridge connections. Also: small socket buffers with both directions full when both peers go away (the bridge must still release everything), slow readers, peers that only half-closed earlier and must still receive the rest. Later additions: the TCP server down, the websocket leg through an HTTP intermediary (with or without half-close), a next hop that never answers the websocket handshake.",
		Assumptions: commonAssumptions,
		RealStub: map[string]string{
			"utils/tcpbridge/tcp-bridge-frontend (main), tcp-bridge-backend (main), connection": "real (instrumented copy of the working tree)",
			"gorilla/websocket, x/net/http2/h2c, net/http, httputil.ReverseProxy":               "real, unmodified",
			"TCP/IP sockets":           "SimNet (in-memory, driver-scheduled)",
			"time":                     "synctest bubble clock",
			"flags, os.Exit/log.Fatal": "sim stand-ins",
			"TCP clients, TCP server behind the bridge": "harness peers",
		},
	},
	"C17": {
		Legs:        []Leg{{World: "C17", Weight: 1, Quick: 6400}},
		Probes:      []string{"admin_api_refused", "authorised_agent_call", "unauthorised_agent_call", "user_request_routed", "reregistered_old_agent", "crafted_request_id", "federated_user_without_email", "intruder_concurrent_with_rightful_agent", "oauth_token_without_email"},
		Rule:        "App Engine proxy behind the platform's request wrapper with a stub platform: 1..4 registered backends; admin API calls, agent calls (pending/request/response) and end-user requests by generated identities (anonymous, signed-in user, OAuth agent, OAuth user, admin, OAuth admin) against own / other / unknown backend and request IDs. Reference ACL table maintained from successful admin calls; store snapshot compared before/after every refused call. Later additions: federated users, OAuth accounts without e-mail, agent-account sign-in without OAuth, concurrent intruders with datastore latency, re-registration.",
		Assumptions: commonAssumptions,
		RealStub: map[string]string{
			"app/proxy.go (handlers registered by init), app/store, app/cache, app/types":   "real (instrumented copy of the working tree)",
			"appengine/v2 client libraries: datastore, memcache, user, per-request handler": "real (local copy of the module; two added exports: per-request handler, module name from the request)",
			"datastore_v3 / memcache / user RPC services":                                   "stub (platform/simplatform: strongly consistent in-memory store, kind/filter/keys-only/limit queries, 1 MiB entity and 1 MB memcache limits, per-RPC fault and latency hooks)",
			"time":                            "synctest bubble clock",
			"clients, agents, administrators": "harness (calls through the platform's request wrapper)",
		},
	},
	"C18": {
		Legs:        []Leg{{World: "C18", Weight: 1, Quick: 5300}},
		Probes:      []string{"routed", "answered_404", "shared_fallback", "lookup_fault", "registrations_changed_between_lookups", "busy_backend_polls_return_at_once", "answered_then_backend_deleted_then_same_url", "owner_with_more_than_500_backends", "end_user_address_with_upper_case_letters"},
		Rule:        "1..6 backends with 1..3 prefixes each from a menu of nested / overlapping / duplicate / empty prefixes for two users and allUsers; each backend's agent polled 1 s .. 20 min before the requests (or never), clock advanced by the simulator across the 5-minute window; 1..5 concurrent user requests; tracker-lookup RPC faults in a sixth of the runs. Independent specification: longest matching prefix among the user's backends, shared fallback only without a match, routed iff live; ties accept either. Also: a second lookup round for the same users and paths 10 s later, after a more specific backend was registered and polled or a backend was deleted; the platform's clean-up cron call before the lookups. Later additions: busy backends, failing backend queries, requests answered before their backend is deleted and repeated with the same URL, owners with more than 500 registrations, user addresses with upper-case letters.",
		Assumptions: commonAssumptions,
		RealStub: map[string]string{
			"app/proxy.go (handlers registered by init), app/store, app/cache, app/types":   "real (instrumented copy of the working tree)",
			"appengine/v2 client libraries: datastore, memcache, user, per-request handler": "real (local copy of the module; two added exports: per-request handler, module name from the request)",
			"datastore_v3 / memcache / user RPC services":                                   "stub (platform/simplatform: strongly consistent in-memory store, kind/filter/keys-only/limit queries, 1 MiB entity and 1 MB memcache limits, per-RPC fault and latency hooks)",
			"time":                            "synctest bubble clock",
			"clients, agents, administrators": "harness (calls through the platform's request wrapper)",
		},
	},
	"C19": {
		Legs:        []Leg{{World: "C19", Weight: 2, Quick: 720}, {World: "C19/faulty", Weight: 2, Quick: 680}, {World: "C19", Race: true, Weight: 1, Quick: 81}},
		Probes:      []string{"response_relayed", "timeout_504", "request_across_part_limit", "response_across_part_limit", "both_respond_writes_fail", "concurrent_clients", "request_exact_multiple_of_part_size", "response_exact_multiple_of_part_size", "repeated_get_not_replayed", "cleanup_cron_between_post_and_pickup", "respond_call_cut_partway", "memcache_unavailable", "hundred_completed_requests_still_stored"},
		Rule:        "1..4 concurrent client requests (GET/POST, unique tokens, some sharing user and URL) and a scripted authorised agent (list, fetch, respond after 0..29 s or never) through the App Engine proxy on the stub platform; request/response sizes 0 B .. 2,000,001 B around the 1,000,000-byte inline and part limits; memcache eviction 0/30/100%; faulty leg fails the n-th datastore Put/Get/RunQuery or memcache Set of a kind, including both writes of one respond call. Every handler call must return within 31 s of simulated time. Also: payloads whose stored length is exactly 1, 2 or 3 MB, repeated GETs of one URL whose first answer carried Cache-Control (never replayed), and the platform's clean-up cron call between a respond call and the client's next look. Later additions: respond calls cut half-way, memcache down for the whole run, a backlog of 100+ completed requests; fault-free runs also require that the polling agent obtains every stored request whose client ends with 504.",
		Assumptions: commonAssumptions,
		RealStub: map[string]string{
			"app/proxy.go (handlers registered by init), app/store, app/cache, app/types":   "real (instrumented copy of the working tree)",
			"appengine/v2 client libraries: datastore, memcache, user, per-request handler": "real (local copy of the module; two added exports: per-request handler, module name from the request)",
			"datastore_v3 / memcache / user RPC services":                                   "stub (platform/simplatform: strongly consistent in-memory store, kind/filter/keys-only/limit queries, 1 MiB entity and 1 MB memcache limits, per-RPC fault and latency hooks)",
			"time":                            "synctest bubble clock",
			"clients, agents, administrators": "harness (calls through the platform's request wrapper)",
		},
	},
}
