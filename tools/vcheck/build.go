package main

import (
	"encoding/json"
	"fmt"
	"os"
	"os/exec"
	"path/filepath"
	"strings"
)

const goBin = "/opt/veriftools/go1.26.8/bin/go"
const goRoot = "/opt/veriftools/go1.26.8"

func verifDir() string {
	if d := os.Getenv("VERIF_DIR"); d != "" {
		return d
	}
	return "/verif"
}

func repoDir() string {
	if d := os.Getenv("VERIF_REPO"); d != "" {
		return d
	}
	return "/repo"
}

func goEnv() []string {
	env := os.Environ()
	env = append(env, "GOFLAGS=-mod=mod", "GOPROXY=off", "GOSUMDB=off", "GOTOOLCHAIN=local", "GOWORK=off", "CGO_ENABLED=1")
	return env
}

type buildOut struct {
	Dir      string
	Plain    string
	Race     string
	Yields   bool
	SitesFile string
}

func mustReplace(s, old, new, what string) (string, error) {
	if strings.Count(s, old) != 1 {
		return "", fmt.Errorf("runtime patch %q: expected exactly one match of %q, found %d (toolchain mismatch?)", what, old, strings.Count(s, old))
	}
	return strings.Replace(s, old, new, 1), nil
}

// runtimeOverlay writes the three runtime files (see DESIGN.md 2.1) and
// returns overlay entries.
func runtimeOverlay(dir string) (map[string]string, error) {
	rt := filepath.Join(goRoot, "src", "runtime")
	out := map[string]string{}
	od := filepath.Join(dir, "rt")
	if err := os.MkdirAll(od, 0o755); err != nil {
		return nil, err
	}
	b, err := os.ReadFile(filepath.Join(rt, "proc.go"))
	if err != nil {
		return nil, err
	}
	s, err := mustReplace(string(b), "const randomizeScheduler = raceenabled", "const randomizeScheduler = false", "randomizeScheduler")
	if err != nil {
		return nil, err
	}
	s, err = mustReplace(s, "\tnewg.goid = pp.goidcache\n", "\tnewg.goid = pp.goidcache\n\tsimParents[newg.goid&simParentMask] = newg.parentGoid\n", "parent table")
	if err != nil {
		return nil, err
	}
	if err := os.WriteFile(filepath.Join(od, "proc.go"), []byte(s), 0o644); err != nil {
		return nil, err
	}
	out[filepath.Join(rt, "proc.go")] = filepath.Join(od, "proc.go")

	b, err = os.ReadFile(filepath.Join(rt, "rand.go"))
	if err != nil {
		return nil, err
	}
	s, err = mustReplace(string(b), "\tglobalRand.state.Init(*seed)\n", "\tfor i := range seed {\n\t\tseed[i] = byte(i*7 + 1)\n\t}\n\tglobalRand.state.Init(*seed)\n", "fixed seed")
	if err != nil {
		return nil, err
	}
	if err := os.WriteFile(filepath.Join(od, "rand.go"), []byte(s), 0o644); err != nil {
		return nil, err
	}
	out[filepath.Join(rt, "rand.go")] = filepath.Join(od, "rand.go")

	// A goroutine waiting for a sync.Mutex counts as idle for the bubble: its
	// holder may be a task the driver has parked or a goroutine blocked on
	// SimNet; without this the bubble would never become quiescent.
	b, err = os.ReadFile(filepath.Join(rt, "runtime2.go"))
	if err != nil {
		return nil, err
	}
	s, err = mustReplace(string(b), "\twaitReasonSynctestSelect:        true,\n}", "\twaitReasonSynctestSelect:        true,\n\twaitReasonSyncMutexLock:         true,\n\twaitReasonSyncRWMutexRLock:      true,\n\twaitReasonSyncRWMutexLock:       true,\n}", "mutex wait is idle")
	if err != nil {
		return nil, err
	}
	if err := os.WriteFile(filepath.Join(od, "runtime2.go"), []byte(s), 0o644); err != nil {
		return nil, err
	}
	out[filepath.Join(rt, "runtime2.go")] = filepath.Join(od, "runtime2.go")

	extra := `package runtime

const simParentMask = 1<<20 - 1

var simParents [1 << 20]uint64

// SimGoid returns the id of the calling goroutine.
func SimGoid() uint64 { return getg().goid }

// SimParentOf returns the id of the goroutine that created goroutine id (0 if unknown).
func SimParentOf(id uint64) uint64 { return simParents[id&simParentMask] }
`
	if err := os.WriteFile(filepath.Join(od, "zz_sim.go"), []byte(extra), 0o644); err != nil {
		return nil, err
	}
	out[filepath.Join(rt, "zz_sim.go")] = filepath.Join(od, "zz_sim.go")
	return out, nil
}

func run(dir string, env []string, name string, args ...string) (string, error) {
	cmd := exec.Command(name, args...)
	cmd.Dir = dir
	cmd.Env = env
	b, err := cmd.CombinedOutput()
	return string(b), err
}

// build instruments the current working tree and builds the harness test
// binaries. Any failure here is machinery trouble (exit 2), never a violation.
func build(tag string, wantRace bool) (*buildOut, error) {
	vd := verifDir()
	dir := filepath.Join(vd, ".build", fmt.Sprintf("%s-%d", tag, os.Getpid()))
	os.RemoveAll(dir)
	if err := os.MkdirAll(dir, 0o755); err != nil {
		return nil, err
	}
	bo := &buildOut{Dir: dir, Yields: true}
	rtOv, err := runtimeOverlay(dir)
	if err != nil {
		return nil, err
	}
	try := func(noYield bool) (string, error) {
		os.RemoveAll(filepath.Join(dir, "src"))
		args := []string{"-repo", repoDir(), "-out", dir}
		if noYield {
			args = append(args, "-noyield")
		}
		if out, err := run(vd, os.Environ(), filepath.Join(vd, "bin", "instrument"), args...); err != nil {
			return out, fmt.Errorf("instrument: %v", err)
		}
		// merge overlays
		var ov struct{ Replace map[string]string }
		b, err := os.ReadFile(filepath.Join(dir, "overlay.json"))
		if err != nil {
			return "", err
		}
		if err := json.Unmarshal(b, &ov); err != nil {
			return "", err
		}
		for k, v := range rtOv {
			ov.Replace[k] = v
		}
		b, _ = json.Marshal(ov)
		if err := os.WriteFile(filepath.Join(dir, "overlay.json"), b, 0o644); err != nil {
			return "", err
		}
		// scratch go.mod: the repository's own requirements verbatim
		rm, err := os.ReadFile(filepath.Join(repoDir(), "go.mod"))
		if err != nil {
			return "", err
		}
		var sb strings.Builder
		sb.WriteString("module verif/harness\n\ngo 1.26\n\ngodebug default=go1.18\ngodebug asynctimerchan=0\n\n")
		for _, line := range strings.Split(string(rm), "\n") {
			t := strings.TrimSpace(line)
			if strings.HasPrefix(t, "module ") || strings.HasPrefix(t, "go ") || strings.HasPrefix(t, "toolchain ") {
				continue
			}
			sb.WriteString(line + "\n")
		}
		sb.WriteString("\nrequire github.com/google/inverting-proxy v0.0.0\nrequire verif/sim v0.0.0\nrequire github.com/anishathalye/porcupine v1.3.0\n")
		sb.WriteString("replace github.com/google/inverting-proxy => " + repoDir() + "\n")
		sb.WriteString("replace verif/sim => " + filepath.Join(vd, "sim") + "\n")
		ae := filepath.Join(vd, "third_party", "appengine_v2_sim")
		if _, err := os.Stat(ae); err == nil {
			sb.WriteString("replace google.golang.org/appengine/v2 => " + ae + "\n")
		}
		modfile := filepath.Join(dir, "go.mod")
		if err := os.WriteFile(modfile, []byte(sb.String()), 0o644); err != nil {
			return "", err
		}
		sum, _ := os.ReadFile(filepath.Join(repoDir(), "go.sum"))
		extraSum, _ := os.ReadFile(filepath.Join(vd, "harness", "extra.sum"))
		if err := os.WriteFile(filepath.Join(dir, "go.sum"), append(sum, extraSum...), 0o644); err != nil {
			return "", err
		}
		base := []string{"test", "-c", "-modfile", modfile, "-overlay", filepath.Join(dir, "overlay.json"), "-vet=off"}
		bo.Plain = filepath.Join(dir, "harness.plain.test")
		out, err := run(filepath.Join(vd, "harness"), goEnv(), goBin, append(base, "-o", bo.Plain, ".")...)
		if err != nil {
			return out, fmt.Errorf("go test -c: %v", err)
		}
		if wantRace {
			bo.Race = filepath.Join(dir, "harness.race.test")
			out, err := run(filepath.Join(vd, "harness"), goEnv(), goBin, append(base, "-race", "-o", bo.Race, ".")...)
			if err != nil {
				return out, fmt.Errorf("go test -c -race: %v", err)
			}
		}
		return "", nil
	}
	out, err := try(false)
	if err != nil {
		fmt.Fprintf(os.Stderr, "vcheck: instrumented build failed (%v); retrying with seams only\n%s\n", err, tail(out, 40))
		bo.Yields = false
		out, err = try(true)
		if err != nil {
			return nil, fmt.Errorf("%v\n%s", err, tail(out, 60))
		}
	}
	bo.SitesFile = filepath.Join(dir, "sites.json")
	return bo, nil
}

func tail(s string, n int) string {
	lines := strings.Split(s, "\n")
	if len(lines) > n {
		lines = lines[len(lines)-n:]
	}
	return strings.Join(lines, "\n")
}
