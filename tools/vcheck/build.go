package main

import (
	"encoding/json"
	"fmt"
	"os"
	"os/exec"
	"path/filepath"
	"strings"
)

const goBin = "/opt/veriftools/go1.26.8/bin/go"
const goRoot = "/opt/veriftools/go1.26.8"

// verifDir is the root of the verification tree: VERIF_DIR, else the parent of
// the directory holding this executable (bin/..), else the working directory.
func verifDir() string {
	if d := os.Getenv("VERIF_DIR"); d != "" {
		return d
	}
	if exe, err := os.Executable(); err == nil {
		if d := filepath.Dir(filepath.Dir(exe)); fileExists(filepath.Join(d, "harness", "world.go")) {
			return d
		}
	}
	if wd, err := os.Getwd(); err == nil && fileExists(filepath.Join(wd, "harness", "world.go")) {
		return wd
	}
	return "/verif"
}

func fileExists(p string) bool {
	_, err := os.Stat(p)
	return err == nil
}

func repoDir() string {
	if d := os.Getenv("VERIF_REPO"); d != "" {
		return d
	}
	return "/repo"
}

func goEnv() []string {
	env := os.Environ()
	env = append(env, "GOFLAGS=-mod=mod", "GOPROXY=off", "GOSUMDB=off", "GOTOOLCHAIN=local", "GOWORK=off", "CGO_ENABLED=1")
	return env
}

type buildOut struct {
	Dir       string
	Plain     string
	Race      string
	Yields    bool
	SitesFile string
}

func mustReplace(s, old, new, what string) (string, error) {
	if strings.Count(s, old) != 1 {
		return "", fmt.Errorf("runtime patch %q: expected exactly one match of %q, found %d (toolchain mismatch?)", what, old, strings.Count(s, old))
	}
	return strings.Replace(s, old, new, 1), nil
}

// runtimeOverlay writes the three runtime files (see DESIGN.md 2.1) and
// returns overlay entries.
func runtimeOverlay(dir string) (map[string]string, error) {
	rt := filepath.Join(goRoot, "src", "runtime")
	out := map[string]string{}
	od := filepath.Join(dir, "rt")
	if err := os.MkdirAll(od, 0o755); err != nil {
		return nil, err
	}
	b, err := os.ReadFile(filepath.Join(rt, "proc.go"))
	if err != nil {
		return nil, err
	}
	s, err := mustReplace(string(b), "const randomizeScheduler = raceenabled", "const randomizeScheduler = false", "randomizeScheduler")
	if err != nil {
		return nil, err
	}
	s, err = mustReplace(s, "\tnewg.goid = pp.goidcache\n", "\tnewg.goid = pp.goidcache\n\tsimParents[newg.goid&simParentMask] = newg.parentGoid\n", "parent table")
	if err != nil {
		return nil, err
	}
	// sysmon asks a goroutine that has been running for 10 ms of wall time to
	// yield; on a loaded machine that re-orders the run queue. No time slicing.
	s, err = mustReplace(s, "const forcePreemptNS = 10 * 1000 * 1000 // 10ms", "const forcePreemptNS = 1 << 60", "no forced preemption")
	if err != nil {
		return nil, err
	}
	// A goroutine of the runtime itself (scavenger, finalizer) that wakes up at a
	// real-time instant would take the P's "run next" slot and push one of the
	// simulated goroutines to the tail of the queue. Plain FIFO queueing keeps
	// the relative order of simulated goroutines independent of such wake-ups.
	s, err = mustReplace(s, "\tif randomizeScheduler && next && randn(2) == 0 {\n\t\tnext = false\n\t}\n", "\tnext = false\n", "no runnext")
	if err != nil {
		return nil, err
	}
	// When more than 256 goroutines are runnable at once (a burst of a few
	// hundred clients), the P's local run queue overflows: half of it moves to
	// the global queue, which is looked at every 61st scheduling round. Both the
	// moment of the overflow and that phase count goroutines of the runtime
	// itself, which wake up at real-time instants, so the order in which the
	// simulated goroutines ran differed between identical runs on a loaded
	// machine (3 of 3000 C04b seeds). A local queue of 4096 entries (see
	// runtime2.go below) keeps the order plain FIFO; should it ever overflow,
	// the batch is built in a static array, not in an 16 KiB stack frame.
	s, err = mustReplace(s, "\tvar batch [len(pp.runq)/2 + 1]*g\n", "\tbatch := &simRunqBatch\n", "runq batch 1")
	if err != nil {
		return nil, err
	}
	s, err = mustReplace(s, "\t\tbatch[i] = pp.runq[(h+i)%uint32(len(pp.runq))].ptr()\n", "\t\tbatch[i] = pp.runq[(h+i)%uint32(len(pp.runq))]\n", "runq batch 2")
	if err != nil {
		return nil, err
	}
	s, err = mustReplace(s, "\tbatch[n] = gp\n", "\tbatch[n].set(gp)\n", "runq batch 3")
	if err != nil {
		return nil, err
	}
	s, err = mustReplace(s, "\t\tbatch[i].schedlink.set(batch[i+1])\n", "\t\tbatch[i].ptr().schedlink.set(batch[i+1].ptr())\n", "runq batch 4")
	if err != nil {
		return nil, err
	}
	s, err = mustReplace(s, "\tq := gQueue{batch[0].guintptr(), batch[n].guintptr(), int32(n + 1)}\n", "\tq := gQueue{batch[0], batch[n], int32(n + 1)}\n", "runq batch 5")
	if err != nil {
		return nil, err
	}
	s, err = mustReplace(s, "func runqgrab(pp *p, batch *[256]guintptr,", "func runqgrab(pp *p, batch *[4096]guintptr,", "runqgrab signature")
	if err != nil {
		return nil, err
	}
	s += "\nvar simRunqBatch [len(p{}.runq)/2 + 1]guintptr\n"
	if err := os.WriteFile(filepath.Join(od, "proc.go"), []byte(s), 0o644); err != nil {
		return nil, err
	}
	out[filepath.Join(rt, "proc.go")] = filepath.Join(od, "proc.go")

	b, err = os.ReadFile(filepath.Join(rt, "rand.go"))
	if err != nil {
		return nil, err
	}
	s, err = mustReplace(string(b), "\tglobalRand.state.Init(*seed)\n", "\tfor i := range seed {\n\t\tseed[i] = byte(i*7 + 1)\n\t}\n\tglobalRand.state.Init(*seed)\n", "fixed seed")
	if err != nil {
		return nil, err
	}
	// rand() feeds map iteration order and hash seeds from a per-M stream; which
	// M runs the single P is not under our control, so use one global stream.
	s, err = mustReplace(s, "func rand() uint64 {\n", "func rand() uint64 {\n\tif simDeterministic {\n\t\treturn simRand64(&simRandState)\n\t}\n", "global rand stream")
	if err != nil {
		return nil, err
	}
	// Map hash seeds and iteration offsets are one constant: the order in which a
	// map is iterated then depends on its own history only, not on how many other
	// maps the process has created or iterated before (the race-detector build
	// creates a different number of maps than the plain build, and with a stream the
	// two builds iterated net/http's idle-connection table in different orders). A new
	// M (created at load-dependent moments: sysmon hand-offs, blocking system
	// calls) must not draw from a stream that simulated code observes.
	s, err = mustReplace(s, "func maps_rand() uint64 {\n\treturn rand()\n", "func maps_rand() uint64 {\n\tif simDeterministic {\n\t\treturn 0x9E3779B97F4A7C15\n\t}\n\treturn rand()\n", "map rand stream")
	if err != nil {
		return nil, err
	}
	s, err = mustReplace(s, "\tmp.cheaprand = rand()\n", "\tmp.cheaprand = seed[0] | 1\n", "new M does not draw from the sim stream")
	if err != nil {
		return nil, err
	}
	if err := os.WriteFile(filepath.Join(od, "rand.go"), []byte(s), 0o644); err != nil {
		return nil, err
	}
	out[filepath.Join(rt, "rand.go")] = filepath.Join(od, "rand.go")

	// A goroutine waiting for a sync.Mutex counts as idle for the bubble: its
	// holder may be a task the driver has parked or a goroutine blocked on
	// SimNet; without this the bubble would never become quiescent.
	b, err = os.ReadFile(filepath.Join(rt, "runtime2.go"))
	if err != nil {
		return nil, err
	}
	s, err = mustReplace(string(b), "\twaitReasonSynctestSelect:        true,\n}", "\twaitReasonSynctestSelect:        true,\n\twaitReasonSyncMutexLock:         true,\n\twaitReasonSyncRWMutexRLock:      true,\n\twaitReasonSyncRWMutexLock:       true,\n}", "mutex wait is idle")
	if err != nil {
		return nil, err
	}
	s, err = mustReplace(s, "\trunq     [256]guintptr\n", "\trunq     [4096]guintptr\n", "local run queue size")
	if err != nil {
		return nil, err
	}
	if err := os.WriteFile(filepath.Join(od, "runtime2.go"), []byte(s), 0o644); err != nil {
		return nil, err
	}
	out[filepath.Join(rt, "runtime2.go")] = filepath.Join(od, "runtime2.go")

	// The order of ready select cases and of same-instant fake timers is drawn
	// from cheaprand, a per-M stream that the allocator and scheduler also consume
	// at load-dependent moments. Give both their own deterministic sources.
	for _, pt := range []struct{ file, old, new, what string }{
		{"select.go", "j := cheaprandn(uint32(norder + 1))", "j := simRandn(&simSelectState, uint32(norder+1))", "select order"},
		{"time.go", "t.rand = cheaprand()", "t.rand = simTimerOrd()", "timer tie order"},
		// sync.Mutex switches to starvation mode (direct hand-off) when a waiter has
		// waited for more than 1 ms of *wall* time, which changes who gets the lock
		// next. With a constant clock the mutex always stays in normal mode.
		{"sema.go", "func internal_sync_nanotime() int64 {\n\treturn nanotime()\n", "func internal_sync_nanotime() int64 {\n\treturn 1\n", "mutex starvation clock"},
	} {
		b, err := os.ReadFile(filepath.Join(rt, pt.file))
		if err != nil {
			return nil, err
		}
		s, err := mustReplace(string(b), pt.old, pt.new, pt.what)
		if err != nil {
			return nil, err
		}
		if err := os.WriteFile(filepath.Join(od, pt.file), []byte(s), 0o644); err != nil {
			return nil, err
		}
		out[filepath.Join(rt, pt.file)] = filepath.Join(od, pt.file)
	}

	extra := `package runtime

import "internal/runtime/atomic"

const simDeterministic = true

var simRandState, simSelectState, simMapState uint64
var simTimerCtr uint32

//go:nosplit
func simRand64(state *uint64) uint64 {
	z := atomic.Xadd64(state, -0x61C8864680B583EB)
	z = (z ^ (z >> 30)) * 0xBF58476D1CE4E5B9
	z = (z ^ (z >> 27)) * 0x94D049BB133111EB
	return z ^ (z >> 31)
}

//go:nosplit
func simRandn(state *uint64, n uint32) uint32 {
	return uint32((uint64(uint32(simRand64(state))) * uint64(n)) >> 32)
}

// simTimerOrd orders fake-time timers that fire at the same instant by the
// order in which they were armed.
//
//go:nosplit
func simTimerOrd() uint32 { return atomic.Xadd(&simTimerCtr, 1) }

const simParentMask = 1<<20 - 1

var simParents [1 << 20]uint64

// SimGoid returns the id of the calling goroutine.
func SimGoid() uint64 { return getg().goid }

// SimParentOf returns the id of the goroutine that created goroutine id (0 if unknown).
func SimParentOf(id uint64) uint64 { return simParents[id&simParentMask] }
`
	if err := os.WriteFile(filepath.Join(od, "zz_sim.go"), []byte(extra), 0o644); err != nil {
		return nil, err
	}
	out[filepath.Join(rt, "zz_sim.go")] = filepath.Join(od, "zz_sim.go")

	// Every dial and listen of the process - also those made by a transport, dialer
	// or server value that code under test creates itself - goes to the simulated
	// network: net.Dialer.DialContext and net.ListenConfig.Listen get a hook.
	nd := filepath.Join(goRoot, "src", "net")
	b, err = os.ReadFile(filepath.Join(nd, "dial.go"))
	if err != nil {
		return nil, err
	}
	s, err = mustReplace(string(b), "func (d *Dialer) DialContext(ctx context.Context, network, address string) (Conn, error) {\n", "func (d *Dialer) DialContext(ctx context.Context, network, address string) (Conn, error) {\n\tif SimDialContext != nil {\n\t\tsctx, scancel := d.dialCtx(ctx)\n\t\tdefer scancel()\n\t\treturn SimDialContext(sctx, network, address)\n\t}\n", "net dial hook")
	if err != nil {
		return nil, err
	}
	s, err = mustReplace(s, "func (lc *ListenConfig) Listen(ctx context.Context, network, address string) (Listener, error) {\n", "func (lc *ListenConfig) Listen(ctx context.Context, network, address string) (Listener, error) {\n\tif SimListen != nil {\n\t\treturn SimListen(network, address)\n\t}\n", "net listen hook")
	if err != nil {
		return nil, err
	}
	if err := os.WriteFile(filepath.Join(od, "net_dial.go"), []byte(s), 0o644); err != nil {
		return nil, err
	}
	out[filepath.Join(nd, "dial.go")] = filepath.Join(od, "net_dial.go")
	netExtra := `package net

import "context"

// SimDialContext and SimListen, when set, replace the operating system's network.
var SimDialContext func(ctx context.Context, network, address string) (Conn, error)
var SimListen func(network, address string) (Listener, error)
`
	if err := os.WriteFile(filepath.Join(od, "net_zz_sim.go"), []byte(netExtra), 0o644); err != nil {
		return nil, err
	}
	out[filepath.Join(nd, "zz_sim.go")] = filepath.Join(od, "net_zz_sim.go")
	return out, nil
}

func run(dir string, env []string, name string, args ...string) (string, error) {
	cmd := exec.Command(name, args...)
	cmd.Dir = dir
	cmd.Env = env
	b, err := cmd.CombinedOutput()
	return string(b), err
}

// build instruments the current working tree and builds the harness test
// binaries. Any failure here is machinery trouble (exit 2), never a violation.
func build(tag string, wantRace bool) (*buildOut, error) {
	vd := verifDir()
	dir := filepath.Join(vd, ".build", fmt.Sprintf("%s-%d", tag, os.Getpid()))
	os.RemoveAll(dir)
	if err := os.MkdirAll(dir, 0o755); err != nil {
		return nil, err
	}
	bo := &buildOut{Dir: dir, Yields: true}
	rtOv, err := runtimeOverlay(dir)
	if err != nil {
		return nil, err
	}
	try := func(noYield bool) (string, error) {
		os.RemoveAll(filepath.Join(dir, "src"))
		args := []string{"-repo", repoDir(), "-out", dir}
		if noYield {
			args = append(args, "-noyield")
		}
		if out, err := run(vd, os.Environ(), filepath.Join(vd, "bin", "instrument"), args...); err != nil {
			return out, fmt.Errorf("instrument: %v", err)
		}
		// merge overlays
		var ov struct{ Replace map[string]string }
		b, err := os.ReadFile(filepath.Join(dir, "overlay.json"))
		if err != nil {
			return "", err
		}
		if err := json.Unmarshal(b, &ov); err != nil {
			return "", err
		}
		for k, v := range rtOv {
			ov.Replace[k] = v
		}
		b, _ = json.Marshal(ov)
		if err := os.WriteFile(filepath.Join(dir, "overlay.json"), b, 0o644); err != nil {
			return "", err
		}
		// scratch go.mod: the repository's own requirements verbatim
		rm, err := os.ReadFile(filepath.Join(repoDir(), "go.mod"))
		if err != nil {
			return "", err
		}
		var sb strings.Builder
		sb.WriteString("module verif/harness\n\ngo 1.26\n\ngodebug default=go1.18\ngodebug asynctimerchan=0\n\n")
		for _, line := range strings.Split(string(rm), "\n") {
			t := strings.TrimSpace(line)
			if strings.HasPrefix(t, "module ") || strings.HasPrefix(t, "go ") || strings.HasPrefix(t, "toolchain ") {
				continue
			}
			sb.WriteString(line + "\n")
		}
		sb.WriteString("\nrequire github.com/google/inverting-proxy v0.0.0\nrequire verif/sim v0.0.0\nrequire github.com/anishathalye/porcupine v1.3.0\n")
		sb.WriteString("replace github.com/google/inverting-proxy => " + repoDir() + "\n")
		sb.WriteString("replace verif/sim => " + filepath.Join(vd, "sim") + "\n")
		ae := filepath.Join(vd, "third_party", "appengine_v2_sim")
		if _, err := os.Stat(ae); err == nil {
			sb.WriteString("replace google.golang.org/appengine/v2 => " + ae + "\n")
		}
		modfile := filepath.Join(dir, "go.mod")
		if err := os.WriteFile(modfile, []byte(sb.String()), 0o644); err != nil {
			return "", err
		}
		sum, _ := os.ReadFile(filepath.Join(repoDir(), "go.sum"))
		extraSum, _ := os.ReadFile(filepath.Join(vd, "harness", "extra.sum"))
		if err := os.WriteFile(filepath.Join(dir, "go.sum"), append(sum, extraSum...), 0o644); err != nil {
			return "", err
		}
		base := []string{"test", "-c", "-modfile", modfile, "-overlay", filepath.Join(dir, "overlay.json"), "-vet=off"}
		bo.Plain = filepath.Join(dir, "harness.plain.test")
		out, err := run(filepath.Join(vd, "harness"), goEnv(), goBin, append(base, "-o", bo.Plain, ".")...)
		if err != nil {
			return out, fmt.Errorf("go test -c: %v", err)
		}
		if wantRace {
			bo.Race = filepath.Join(dir, "harness.race.test")
			out, err := run(filepath.Join(vd, "harness"), goEnv(), goBin, append(base, "-race", "-o", bo.Race, ".")...)
			if err != nil {
				return out, fmt.Errorf("go test -c -race: %v", err)
			}
		}
		return "", nil
	}
	out, err := try(false)
	if err != nil {
		fmt.Fprintf(os.Stderr, "vcheck: instrumented build failed (%v); retrying with seams only\n%s\n", err, tail(out, 40))
		bo.Yields = false
		out, err = try(true)
		if err != nil {
			return nil, fmt.Errorf("%v\n%s", err, tail(out, 60))
		}
	}
	bo.SitesFile = filepath.Join(dir, "sites.json")
	return bo, nil
}

func tail(s string, n int) string {
	lines := strings.Split(s, "\n")
	if len(lines) > n {
		lines = lines[len(lines)-n:]
	}
	return strings.Join(lines, "\n")
}
