// Command vcheck is the orchestrator: it rebuilds the harness from the
// current working tree of the repository (instrumented overlay), fans seeds
// out over fresh OS processes, shrinks failing tapes, consults the
// known-findings file, and writes the evidence file.
//
// Exit codes: 0 property held on everything explored (known findings are
// printed, not failed); 1 a violation not listed as known; 2 machinery
// trouble (build, watchdog, harness bug, probe not reached) - never a
// VIOLATION line.
package main

import (
	"bytes"
	"context"
	"encoding/json"
	"flag"
	"fmt"
	"os"
	"os/exec"
	"path/filepath"
	"regexp"
	"sort"
	"strconv"
	"strings"
	"sync"
	"time"
)

type Result struct {
	World     string          `json:"world"`
	Seed      uint64          `json:"seed"`
	Outcome   string          `json:"outcome"`
	Oracle    string          `json:"oracle"`
	Msg       string          `json:"msg"`
	Steps     int             `json:"steps"`
	NTSteps   int             `json:"nt_steps"`
	SimMs     int64           `json:"sim_ms"`
	LogHash   string          `json:"log_hash"`
	SchedHash string          `json:"sched_hash"`
	Stats     map[string]int  `json:"stats"`
	TapeLen   int             `json:"tape_len"`
	Tape      []int32         `json:"tape"`
	Labels    []string        `json:"labels"`
	Sample    json.RawMessage `json:"sample"`
	AllViol   []string        `json:"all_violations"`
	Trace     string          `json:"trace"`
}

// runOut is everything learnt from one process.
type runOut struct {
	leg     *Leg
	seed    uint64
	res     *Result
	viols   []viol // oracle violations + crash + races
	trouble string // machinery trouble
	wall    time.Duration
	stderr  string
}

type viol struct {
	Oracle string
	Msg    string
}

// sig is the violation class: oracle plus the normalised message up to the
// detail separator " | " (details after it do not distinguish classes).
func (v viol) sig() string {
	m := v.Msg
	if i := strings.Index(m, " | "); i >= 0 {
		m = m[:i]
	}
	return v.Oracle + ": " + normalise(m)
}

var reNum = regexp.MustCompile(`[0-9]+`)
var reHex = regexp.MustCompile(`\b[0-9a-f]{8,}\b`)
var reQuoted = regexp.MustCompile(`"[^"]*"`)

func normalise(s string) string {
	s = reHex.ReplaceAllString(s, "H")
	s = reQuoted.ReplaceAllString(s, "Q")
	s = reNum.ReplaceAllString(s, "N")
	if len(s) > 200 {
		s = s[:200]
	}
	return s
}

type runner struct {
	bo      *buildOut
	tier    string
	verbose bool
}

func (r *runner) runOne(ctx context.Context, leg *Leg, seed uint64, tapeFile string, extraEnv ...string) *runOut {
	bin := r.bo.Plain
	if leg.Race {
		bin = r.bo.Race
	}
	wd := 120 * time.Second
	if r.tier == "thorough" {
		wd = 600 * time.Second
	}
	cctx, cancel := context.WithTimeout(ctx, wd)
	defer cancel()
	cmd := exec.CommandContext(cctx, bin, "-test.run=^TestSim$", "-test.timeout=0")
	// The environment block has the same variables and the same byte size for
	// every run of a world (seed run, shrink candidate, replay), so that nothing
	// address- or size-dependent can differ between a run and its replay.
	kv := map[string]string{"VERIF_EMIT_TAPE": "0", "VERIF_TRACE": "0", "VERIF_LOG": "0"}
	for _, e := range extraEnv {
		if i := strings.Index(e, "="); i > 0 {
			kv[e[:i]] = e[i+1:]
		}
	}
	env := []string{
		"PATH=/usr/bin:/bin", "HOME=/root",
		"GOMAXPROCS=1", "GOGC=off", "GODEBUG=asyncpreemptoff=1", "GOTRACEBACK=single",
		"GORACE=atexit_sleep_ms=0 halt_on_error=0 history_size=2",
		"VERIF_WORLD=" + leg.World, fmt.Sprintf("VERIF_SEED=%020d", seed), fmt.Sprintf("VERIF_TIER=%-8s", r.tier),
		fmt.Sprintf("VERIF_TAPE=%-160s", tapeFile),
		"VERIF_EMIT_TAPE=" + kv["VERIF_EMIT_TAPE"], "VERIF_TRACE=" + kv["VERIF_TRACE"], "VERIF_LOG=" + kv["VERIF_LOG"],
	}
	cmd.Env = env
	var so, se bytes.Buffer
	cmd.Stdout = &so
	cmd.Stderr = &se
	t0 := time.Now()
	err := cmd.Run()
	out := &runOut{leg: leg, seed: seed, wall: time.Since(t0), stderr: se.String()}
	if cctx.Err() == context.DeadlineExceeded {
		out.trouble = fmt.Sprintf("watchdog: run exceeded %v wall", wd)
		return out
	}
	if ctx.Err() != nil {
		out.trouble = "cancelled"
		return out
	}
	for _, line := range strings.Split(so.String(), "\n") {
		if strings.HasPrefix(line, "RESULT ") {
			var res Result
			if jerr := json.Unmarshal([]byte(line[7:]), &res); jerr == nil {
				out.res = &res
			}
		}
	}
	all := so.String() + "\n" + se.String()
	if out.res == nil {
		// the process died: a panic or fatal error somewhere
		v, trouble := classifyCrash(all, err)
		if trouble != "" {
			out.trouble = trouble
		} else {
			out.viols = append(out.viols, v)
		}
		return out
	}
	switch out.res.Outcome {
	case "error":
		out.trouble = "harness error: " + out.res.Msg
	case "violation":
		for _, s := range out.res.AllViol {
			i := strings.Index(s, ": ")
			out.viols = append(out.viols, viol{Oracle: s[:i], Msg: s[i+2:]})
		}
	}
	if leg.Race {
		vs, trouble := classifyRaces(se.String())
		out.viols = append(out.viols, vs...)
		if trouble != "" && out.trouble == "" {
			out.trouble = trouble
		}
	}
	return out
}

const repoPkg = "github.com/google/inverting-proxy/"

var reFrame = regexp.MustCompile(`^([A-Za-z0-9_./\-]+(?:\([^)]*\))?[A-Za-z0-9_.\-\[\]*·]*)\(`)

func frameFuncs(block string) []string {
	var out []string
	for _, line := range strings.Split(block, "\n") {
		line = strings.TrimSpace(line)
		if line == "" || strings.HasPrefix(line, "/") {
			continue
		}
		if i := strings.Index(line, "("); i > 0 && !strings.Contains(line[:i], " ") {
			fn := line[:i]
			// method receivers contain parentheses: pkg.(*T).M(
			if j := strings.LastIndex(line, "("); j > i {
				rest := line[:j]
				if !strings.Contains(rest, " ") {
					fn = rest
				}
			}
			out = append(out, fn)
		}
	}
	return out
}

// classifyCrash decides whether a dead process is a violation (a panic or
// fatal error whose goroutine runs repository code) or machinery trouble.
func classifyCrash(all string, err error) (viol, string) {
	idx := strings.Index(all, "panic: ")
	kind := "panic"
	if j := strings.Index(all, "fatal error: "); j >= 0 && (idx < 0 || j < idx) {
		idx = j
		kind = "fatal error"
	}
	if idx < 0 {
		return viol{}, fmt.Sprintf("process died without a result (%v): %s", err, tail(all, 15))
	}
	rest := all[idx:]
	first := rest
	if i := strings.Index(first, "\n"); i >= 0 {
		first = first[:i]
	}
	// the first goroutine block after the message is the one that died
	gi := strings.Index(rest, "\ngoroutine ")
	block := rest
	if gi >= 0 {
		block = rest[gi+1:]
		if e := strings.Index(block, "\n\n"); e >= 0 {
			block = block[:e]
		}
	}
	funcs := frameFuncs(block)
	var repoFn string
	for _, f := range funcs {
		if strings.HasPrefix(f, "panic") || strings.HasPrefix(f, "runtime.") || strings.HasPrefix(f, "testing.") {
			continue
		}
		if strings.HasPrefix(f, "verif/sim.Y") {
			continue
		}
		if strings.HasPrefix(f, repoPkg) {
			repoFn = f
			break
		}
		if strings.HasPrefix(f, "verif/") {
			return viol{}, fmt.Sprintf("harness crashed (%s) in %s:\n%s", first, f, tail(block, 30))
		}
	}
	if repoFn == "" {
		// no repository frame on the dying goroutine: look at whether any appears at all
		for _, f := range funcs {
			if strings.HasPrefix(f, repoPkg) {
				repoFn = f
			}
		}
	}
	if repoFn == "" {
		// No repository frame on the dying goroutine. A runtime error inside a library
		// goroutine (net/http's transport loops, gorilla's readers, ...) that no harness
		// frame is part of is the simulated program crashing through its misuse of the
		// library (e.g. a buffer it recycled while the library still read from it).
		harnessFrame := false
		libFn := ""
		for _, f := range funcs {
			if strings.HasPrefix(f, "verif/") && f != "verif/sim.(*Conn).Read" && f != "verif/sim.(*Conn).Write" && f != "verif/sim.(*Kernel).spawned" && !strings.Contains(f, "cloudRoundTripper") {
				harnessFrame = true
			}
			if libFn == "" && !strings.HasPrefix(f, "panic") && !strings.HasPrefix(f, "runtime.") && !strings.HasPrefix(f, "verif/") {
				libFn = f
			}
		}
		if !harnessFrame && (strings.Contains(first, "runtime error") || kind == "fatal error") {
			return viol{Oracle: "crash", Msg: first + " | in library code " + libFn + " on a goroutine without repository or harness frames"}, ""
		}
		return viol{}, fmt.Sprintf("process died outside repository code (%s):\n%s", first, tail(block, 30))
	}
	return viol{Oracle: "crash", Msg: first + " in " + strings.TrimPrefix(repoFn, repoPkg)}, ""
}

// classifyRaces turns race-detector reports into violations. A report counts
// only if no access stack has a harness frame nearer to the access than its first
// repository frame, and at least one stack has a repository frame.
func classifyRaces(stderr string) ([]viol, string) {
	var out []viol
	trouble := ""
	parts := strings.Split(stderr, "WARNING: DATA RACE")
	seen := map[string]bool{}
	for _, p := range parts[1:] {
		if e := strings.Index(p, "=================="); e >= 0 {
			p = p[:e]
		}
		// split into the two access stacks (ignore "Goroutine N created at" sections)
		secs := regexp.MustCompile(`(?m)^(Read at|Write at|Previous read at|Previous write at|Goroutine \d+ \(|  Goroutine \d+ \(|Atomic|Previous atomic)`).Split(p, -1)
		heads := regexp.MustCompile(`(?m)^(Read at|Write at|Previous read at|Previous write at|Goroutine \d+ \(|  Goroutine \d+ \(|Atomic|Previous atomic)`).FindAllString(p, -1)
		var tops []string
		harness := false
		for i, h := range heads {
			if strings.Contains(h, "Goroutine") {
				continue
			}
			body := secs[i+1]
			top := ""
			for _, f := range frameFuncs(body) {
				// SimNet's Read/Write stand where the kernel's socket layer would: the
				// buffer they touch belongs to the caller, so they count as library frames
				// ... and the bottom frame of every program's main goroutine is the kernel's spawner
				// ... and the credential-adding round tripper is a pass-through between two
				// library layers
				if f == "verif/sim.(*Conn).Read" || f == "verif/sim.(*Conn).Write" || f == "verif/sim.(*Kernel).spawned" || strings.Contains(f, "cloudRoundTripper") {
					continue
				}
				// a harness frame counts only when it is nearer to the access than any
				// repository frame: a harness peer that calls into the repository's
				// library API (the bridge's net.Conn) is merely the caller of the
				// repository function in which the access happens
				if strings.HasPrefix(f, "verif/") && top == "" {
					harness = true
				}
				if top == "" && strings.HasPrefix(f, repoPkg) {
					top = strings.TrimPrefix(f, repoPkg)
				}
			}
			if top == "" {
				fs := frameFuncs(body)
				if len(fs) > 0 {
					top = "[" + fs[0] + "]"
				}
			}
			tops = append(tops, top)
		}
		hasRepo := false
		for _, t := range tops {
			if t != "" && !strings.HasPrefix(t, "[") {
				hasRepo = true
			}
		}
		if harness || !hasRepo {
			if trouble == "" {
				trouble = "race report involving harness or no repository frame:\n" + head(p, 45)
			}
			continue
		}
		sort.Strings(tops)
		msg := "unordered accesses: " + strings.Join(tops, " <-> ")
		if !seen[msg] {
			seen[msg] = true
			out = append(out, viol{Oracle: "race", Msg: msg})
		}
	}
	return out, trouble
}

// ---------------------------------------------------------------------------

type knownFinding struct {
	Property string `json:"property"`
	Oracle   string `json:"oracle"`
	Match    string `json:"match"` // regexp on the violation message
	What     string `json:"what"`
}

type knownFile struct {
	Findings []knownFinding `json:"findings"`
	Fixed    []string       `json:"fixed"`
}

func loadKnown() (*knownFile, error) {
	var kf knownFile
	b, err := os.ReadFile(filepath.Join(verifDir(), "known_findings.json"))
	if err != nil {
		if os.IsNotExist(err) {
			return &kf, nil
		}
		return nil, err
	}
	if err := json.Unmarshal(b, &kf); err != nil {
		return nil, err
	}
	return &kf, nil
}

func (kf *knownFile) match(prop string, v viol) *knownFinding {
	for i := range kf.Findings {
		f := &kf.Findings[i]
		if f.Property != prop || f.Oracle != v.Oracle {
			continue
		}
		if ok, _ := regexp.MatchString(f.Match, v.Msg); ok {
			return f
		}
	}
	return nil
}

// ---------------------------------------------------------------------------

func main() {
	if len(os.Args) < 2 {
		fmt.Fprintln(os.Stderr, "usage: vcheck run|replay|selftest|build ...")
		os.Exit(2)
	}
	switch os.Args[1] {
	case "build":
		bo, err := build("dev", len(os.Args) > 2 && os.Args[2] == "race")
		if err != nil {
			fmt.Fprintln(os.Stderr, "BUILD FAILED:", err)
			os.Exit(2)
		}
		fmt.Println(bo.Dir, bo.Yields)
	case "run":
		os.Exit(cmdRun(os.Args[2:]))
	case "replay":
		os.Exit(cmdReplay(os.Args[2:]))
	case "selftest":
		os.Exit(cmdSelftest(os.Args[2:]))
	default:
		fmt.Fprintln(os.Stderr, "unknown command")
		os.Exit(2)
	}
}

func head(s string, n int) string {
	lines := strings.Split(s, "\n")
	if len(lines) > n {
		lines = lines[:n]
	}
	return strings.Join(lines, "\n")
}

func baseSeed() uint64 {
	if s := os.Getenv("VERIF_SEED"); s != "" {
		if v, err := strconv.ParseUint(s, 10, 64); err == nil {
			return v
		}
	}
	return 1
}

type legStats struct {
	Leg          string         `json:"leg"`
	Race         bool           `json:"race_detector"`
	Runs         int            `json:"runs"`
	OK           int            `json:"ok"`
	Inconclusive int            `json:"inconclusive"`
	Violating    int            `json:"violating_runs"`
	SimSeconds   float64        `json:"simulated_seconds"`
	simMs        int64          // summed as an integer: the total must not depend on the order in which runs finish
	Steps        int            `json:"driver_steps"`
	Stats        map[string]int `json:"counters"`
	FirstSeed    uint64         `json:"first_seed"`
	LastSeed     uint64         `json:"last_seed"`
}

func cmdRun(args []string) int {
	fs := flag.NewFlagSet("run", flag.ExitOnError)
	prop := fs.String("prop", "", "property id")
	tier := fs.String("tier", "", "quick|thorough")
	budget := fs.Int("budget", 0, "wall seconds for the run phase (0 = tier default)")
	maxRuns := fs.Int("runs", 0, "cap on runs per leg (0 = budget only)")
	workers := fs.Int("j", 16, "parallel processes")
	keep := fs.Bool("keep", false, "keep the build directory")
	verbose := fs.Bool("v", false, "verbose")
	fs.Parse(args)
	if *tier == "" {
		*tier = os.Getenv("VERIF_TIER")
	}
	if *tier == "" {
		*tier = "quick"
	}
	chk := checks[*prop]
	if chk == nil {
		fmt.Fprintln(os.Stderr, "vcheck: unknown property", *prop)
		return 2
	}
	if *budget == 0 {
		if b := os.Getenv("VERIF_BUDGET_S"); b != "" {
			*budget, _ = strconv.Atoi(b)
		}
	}
	// Quick tier: a fixed number of runs per leg (Leg.Quick), seeds
	// base*1000003 + leg*100000007 + 0..n-1, so that the explored set, the
	// evidence and what the check can detect are a function of VERIF_SEED and
	// the tree only, not of how fast or how loaded the machine is (a fresh
	// restore ran the first checks seven times slower than a warm sandbox).
	// The wall clock only bounds it (quotaCap; reaching it is reported in the
	// evidence). Thorough tier and an explicit -budget / VERIF_BUDGET_S: wall
	// budget shared by weight; the thorough tier also never does less than
	// the quick quota.
	quota := false
	budgetFromTier := *budget == 0
	if *budget == 0 {
		*budget = 45
		if *tier == "thorough" {
			*budget = 900
		} else {
			quota = true
		}
	}
	const quotaCap = 20 * time.Minute
	quotaCapped := false
	t0 := time.Now()
	wantRace := false
	for _, l := range chk.Legs {
		if l.Race {
			wantRace = true
		}
	}
	bo, err := build(*prop+"-"+*tier, wantRace)
	if err != nil {
		fmt.Fprintln(os.Stderr, "vcheck: BUILD FAILED:", err)
		return 2
	}
	if !*keep {
		defer os.RemoveAll(bo.Dir)
	}
	buildWall := time.Since(t0)
	kf, err := loadKnown()
	if err != nil {
		fmt.Fprintln(os.Stderr, "vcheck: known_findings.json:", err)
		return 2
	}
	r := &runner{bo: bo, tier: *tier, verbose: *verbose}
	base := baseSeed()

	// ---- fan out ---------------------------------------------------------
	totalW := 0
	for _, l := range chk.Legs {
		totalW += l.Weight
	}
	var lstats []*legStats
	type sigInfo struct {
		v     viol
		leg   *Leg
		seed  uint64
		count int
	}
	sigs := map[string]*sigInfo{}
	var sigOrder []string
	var troubles []string
	schedSeen := map[string]bool{}
	nontrivial := 0
	evaluations := 0
	var samples []json.RawMessage
	var runLog *os.File // VERIF_RUNLOG=<file>: one line per run (debugging aid: compare two batches seed by seed)
	if f := os.Getenv("VERIF_RUNLOG"); f != "" {
		runLog, _ = os.Create(f)
		defer runLog.Close()
	}
	for li := range chk.Legs {
		leg := &chk.Legs[li]
		ls := &legStats{Leg: leg.World, Race: leg.Race, Stats: map[string]int{}}
		lstats = append(lstats, ls)
		legBudget := time.Duration(*budget) * time.Second * time.Duration(leg.Weight) / time.Duration(totalW)
		deadline := time.Now().Add(legBudget)
		floor, limit := 0, *maxRuns
		if quota {
			deadline = t0.Add(quotaCap)
			if limit == 0 || leg.Quick < limit {
				limit = leg.Quick
			}
		} else if *tier == "thorough" && budgetFromTier {
			floor = leg.Quick
		}
		var mu sync.Mutex
		var wg sync.WaitGroup
		next := uint64(0)
		ctx, cancel := context.WithCancel(context.Background())
		for wk := 0; wk < *workers; wk++ {
			wg.Add(1)
			go func() {
				defer wg.Done()
				for {
					mu.Lock()
					late := time.Now().After(deadline)
					if quota && late && int(next) < limit {
						quotaCapped = true
					}
					if (late && int(next) >= floor) || (limit > 0 && int(next) >= limit) || len(troubles) > 0 {
						mu.Unlock()
						return
					}
					i := next
					next++
					mu.Unlock()
					seed := base*1000003 + uint64(li)*100000007 + i
					o := r.runOne(ctx, leg, seed, "")
					mu.Lock()
					if o.trouble != "" {
						if o.trouble != "cancelled" {
							troubles = append(troubles, fmt.Sprintf("leg %s seed %d: %s", leg.World, seed, o.trouble))
						}
						mu.Unlock()
						continue
					}
					ls.Runs++
					evaluations++
					if ls.Runs == 1 || seed < ls.FirstSeed {
						ls.FirstSeed = seed
					}
					if seed > ls.LastSeed {
						ls.LastSeed = seed
					}
					if o.res != nil {
						ls.simMs += o.res.SimMs
						ls.SimSeconds = float64(ls.simMs) / 1000
						if runLog != nil {
							fmt.Fprintf(runLog, "%s race=%v seed=%d outcome=%s steps=%d sim_ms=%d sched=%s\n", leg.World, leg.Race, seed, o.res.Outcome, o.res.Steps, o.res.SimMs, o.res.SchedHash)
						}
						ls.Steps += o.res.Steps
						for k, v := range o.res.Stats {
							ls.Stats[k] += v
						}
						if o.res.Outcome == "inconclusive" {
							ls.Inconclusive++
							ls.Stats["inconclusive: "+normalise(o.res.Msg)]++
						}
						if o.res.NTSteps >= 2 && !schedSeen[leg.World+o.res.SchedHash] {
							schedSeen[leg.World+o.res.SchedHash] = true
							nontrivial++
						}
						if len(samples) < 4 && len(o.res.Sample) > 0 && ls.Runs <= 2 {
							samples = append(samples, json.RawMessage(fmt.Sprintf(`{"leg":%q,"seed":%d,"outcome":%q,"steps":%d,"sim_ms":%d,"case":%s}`, leg.World, seed, o.res.Outcome, o.res.Steps, o.res.SimMs, string(o.res.Sample))))
						}
					}
					if len(o.viols) > 0 {
						ls.Violating++
						for _, v := range o.viols {
							s := v.sig()
							si := sigs[s]
							if si == nil {
								si = &sigInfo{v: v, leg: leg, seed: seed}
								sigs[s] = si
								sigOrder = append(sigOrder, s)
							}
							si.count++
							if seed < si.seed {
								si.seed, si.v = seed, v
							}
						}
					} else if o.res != nil && o.res.Outcome == "ok" {
						ls.OK++
					}
					mu.Unlock()
				}
			}()
		}
		wg.Wait()
		cancel()
	}
	if len(troubles) > 0 {
		fmt.Fprintln(os.Stderr, "vcheck: machinery trouble (exit 2, not a violation):")
		for i, t := range troubles {
			if i < 3 {
				fmt.Fprintln(os.Stderr, " ", t)
			}
		}
		return 2
	}

	// ---- violations: shrink, replay file, known findings -----------------
	sort.Strings(sigOrder)
	exit := 0
	unknown := 0
	var reported []map[string]interface{}
	shrinkDeadline := time.Now().Add(time.Duration(60+*budget/4) * time.Second)
	for _, s := range sigOrder {
		si := sigs[s]
		if k := kf.match(*prop, si.v); k != nil {
			fmt.Printf("KNOWN-FINDING: property=%s %s [%s: %s] (seen in %d runs, e.g. leg %s seed %d)\n", *prop, k.What, si.v.Oracle, si.v.Msg, si.count, si.leg.World, si.seed)
			reported = append(reported, map[string]interface{}{"known": true, "oracle": si.v.Oracle, "message": si.v.Msg, "runs": si.count})
			continue
		}
		unknown++
		if unknown > 4 {
			fmt.Printf("VIOLATION property=%s replay=none (further signature not minimised: %s)\n", *prop, s)
			exit = 1
			continue
		}
		path, info := r.shrinkAndWrite(*prop, si.leg, si.seed, si.v, shrinkDeadline)
		if path == "" {
			// could not be reproduced from its own tape: not believed
			fmt.Fprintf(os.Stderr, "vcheck: violation %q (leg %s seed %d) did not reproduce from its tape: %s\n", s, si.leg.World, si.seed, info)
			return 2
		}
		fmt.Printf("VIOLATION property=%s replay=%s\n", *prop, path)
		fmt.Printf("  oracle=%s message=%s (leg %s, seed %d, %d runs; %s)\n", si.v.Oracle, si.v.Msg, si.leg.World, si.seed, si.count, info)
		reported = append(reported, map[string]interface{}{"known": false, "oracle": si.v.Oracle, "message": si.v.Msg, "runs": si.count, "replay": path})
		exit = 1
	}

	// ---- probes ------------------------------------------------------------
	agg := map[string]int{}
	for _, ls := range lstats {
		for k, v := range ls.Stats {
			agg[k] += v
		}
	}
	var missing []string
	for _, p := range chk.Probes {
		if agg["probe."+p] == 0 {
			missing = append(missing, p)
		}
	}
	wall := time.Since(t0).Seconds()
	runSelection := fmt.Sprintf("wall budget of %d s shared by the legs by weight", *budget)
	if quota {
		runSelection = "fixed quota of runs per leg (seeds base*1000003 + leg*100000007 + 0..n-1): machine-independent"
		if quotaCapped {
			runSelection += fmt.Sprintf("; NOT COMPLETED: stopped by the %v wall cap", quotaCap)
		}
	} else if *tier == "thorough" && budgetFromTier {
		runSelection += ", and at least the quick tier's quota of runs per leg"
	}
	ev := map[string]interface{}{
		"property_id": *prop,
		"tier":        *tier,
		"seed":        base,
		"level":       "exploration",
		"wall_s":      wall,
		"violations":  unknown,
		"assumptions": chk.Assumptions,
		"coverage": map[string]interface{}{
			"evaluations":         evaluations,
			"distinct_nontrivial": nontrivial,
			"rule":                "one evaluation = one simulated run in a fresh process (one tape from VERIF_SEED-derived seed: workload, schedule, network delivery, faults). distinct = distinct hash of the sequence of driver decisions (task site / connection+direction per step); non-trivial = the driver had at least two enabled events to choose from at two or more steps. " + chk.Rule,
			"samples":             samples,
			"legs":                lstats,
			"runs_per_hour":       float64(evaluations) / (wall - buildWall.Seconds() + 0.001) * 3600,
			"build_wall_s":        buildWall.Seconds(),
			"run_selection":       runSelection,
			"schedule_control":    map[bool]string{true: "yields+network", false: "network-only (instrumented build failed)"}[bo.Yields],
			"probes_required":     chk.Probes,
			"probes_missing":      missing,
			"findings":            reported,
			"real_vs_stub":        chk.RealStub,
		},
	}
	evDir := filepath.Join(verifDir(), "evidence")
	if d := os.Getenv("VERIF_EVIDENCE_DIR"); d != "" {
		evDir = d
	}
	os.MkdirAll(evDir, 0o755)
	eb, _ := json.MarshalIndent(ev, "", " ")
	if err := os.WriteFile(filepath.Join(evDir, *prop+".json"), eb, 0o644); err != nil {
		fmt.Fprintln(os.Stderr, "vcheck: cannot write evidence:", err)
		return 2
	}
	if exit == 0 && len(missing) > 0 {
		fmt.Fprintf(os.Stderr, "vcheck: workload did not reach what it claims: probes at zero: %v (exit 2)\n", missing)
		return 2
	}
	if exit == 0 && evaluations == 0 {
		fmt.Fprintln(os.Stderr, "vcheck: no runs completed")
		return 2
	}
	if quotaCapped {
		fmt.Fprintf(os.Stderr, "vcheck: the quick quota was not completed within %v of wall time; the evidence says so\n", quotaCap)
	}
	fmt.Printf("vcheck: property=%s tier=%s runs=%d distinct_nontrivial=%d violations=%d wall=%.1fs (build %.1fs)\n", *prop, *tier, evaluations, nontrivial, unknown, wall, buildWall.Seconds())
	return exit
}
