package main

import (
	"context"
	"encoding/json"
	"flag"
	"fmt"
	"os"
	"path/filepath"
	"sort"
	"sync"
	"time"
)

type replayFile struct {
	Property  string   `json:"property"`
	Leg       string   `json:"leg"`
	Race      bool     `json:"race_detector"`
	Tier      string   `json:"tier"`
	Seed      uint64   `json:"seed"`
	Tape      []int32  `json:"tape"`
	Labels    []string `json:"labels,omitempty"`
	Violation struct {
		Oracle  string `json:"oracle"`
		Message string `json:"message"`
		Sig     string `json:"signature"`
	} `json:"violation"`
	LogHash     string `json:"event_log_hash"`
	OrigTapeLen int    `json:"original_tape_len"`
	Go          string `json:"go"`
	Trace       string `json:"trace,omitempty"`
	Note        string `json:"note,omitempty"`
}

func writeTape(dir string, n int, tape []int32) string {
	p := filepath.Join(dir, fmt.Sprintf("cand-%d.json", n))
	b, _ := json.Marshal(map[string]interface{}{"tape": tape})
	os.WriteFile(p, b, 0o644)
	return p
}

func hasSig(o *runOut, sig string) bool {
	for _, v := range o.viols {
		if v.sig() == sig {
			return true
		}
	}
	return false
}

// shrinkAndWrite reproduces the violation from its recorded tape, minimises
// the tape while the same violation class persists, verifies the result three
// times and writes the replay file.
func (r *runner) shrinkAndWrite(prop string, leg *Leg, seed uint64, v viol, deadline time.Time) (string, string) {
	ctx := context.Background()
	sig := v.sig()
	o := r.runOne(ctx, leg, seed, "", "VERIF_EMIT_TAPE=1")
	if o.res == nil || o.res.Tape == nil {
		// a crashed process prints no tape: re-run is the replay (seed-only replay file)
		if hasSig(o, sig) {
			return r.writeReplay(prop, leg, seed, nil, v, "", 0, "process crashed before printing its tape; replay is by seed")
		}
		return "", "first re-run did not reproduce"
	}
	if !hasSig(o, sig) {
		return "", "re-run of the seed did not show the violation"
	}
	tape := o.res.Tape
	recorded := append([]int32(nil), tape...)
	orig := len(tape)
	cn := 0
	try := func(cands [][]int32) int {
		// run candidates in parallel; return index of the first (in order) that still fails
		res := make([]bool, len(cands))
		var wg sync.WaitGroup
		sem := make(chan struct{}, 16)
		for i, c := range cands {
			wg.Add(1)
			cn++
			f := writeTape(r.bo.Dir, cn, c)
			go func(i int, f string) {
				defer wg.Done()
				sem <- struct{}{}
				oo := r.runOne(ctx, leg, seed, f)
				<-sem
				os.Remove(f)
				res[i] = oo.trouble == "" && hasSig(oo, sig)
			}(i, f)
		}
		wg.Wait()
		for i, ok := range res {
			if ok {
				return i
			}
		}
		return -1
	}
	trim := func(t []int32) []int32 {
		for len(t) > 0 && t[len(t)-1] == 0 {
			t = t[:len(t)-1]
		}
		return t
	}
	tape = trim(tape)
	for pass := 0; pass < 6 && time.Now().Before(deadline); pass++ {
		changed := false
		// 1. truncation (suffix -> 0)
		for time.Now().Before(deadline) {
			var cands [][]int32
			for _, f := range []int{8, 4, 2} {
				n := len(tape) - len(tape)/f
				if n < len(tape) && n >= 0 {
					cands = append(cands, trim(append([]int32(nil), tape[:n]...)))
				}
			}
			cands = append(cands, trim(append([]int32(nil), tape[:len(tape)/2]...)))
			sort.Slice(cands, func(i, j int) bool { return len(cands[i]) < len(cands[j]) })
			i := try(cands)
			if i < 0 || len(cands[i]) >= len(tape) {
				break
			}
			tape = cands[i]
			changed = true
		}
		// 2. zero blocks
		for bs := len(tape) / 2; bs >= 1 && time.Now().Before(deadline); bs /= 2 {
			for start := 0; start < len(tape) && time.Now().Before(deadline); {
				var cands [][]int32
				var starts []int
				for j := 0; j < 16 && start < len(tape); j++ {
					end := start + bs
					if end > len(tape) {
						end = len(tape)
					}
					nz := false
					for _, x := range tape[start:end] {
						if x != 0 {
							nz = true
						}
					}
					if nz {
						c := append([]int32(nil), tape...)
						for q := start; q < end; q++ {
							c[q] = 0
						}
						cands = append(cands, trim(c))
						starts = append(starts, start)
					}
					start = end
				}
				if len(cands) == 0 {
					continue
				}
				if i := try(cands); i >= 0 {
					tape = cands[i]
					changed = true
					start = starts[i] + bs
				}
			}
			if bs == 1 {
				break
			}
		}
		// 3. lower single values
		for idx := 0; idx < len(tape) && time.Now().Before(deadline); {
			var cands [][]int32
			var idxs []int
			for j := 0; j < 16 && idx < len(tape); idx++ {
				if tape[idx] > 1 {
					c := append([]int32(nil), tape...)
					c[idx] = tape[idx] / 2
					cands = append(cands, c)
					idxs = append(idxs, idx)
					j++
				}
			}
			if len(cands) == 0 {
				break
			}
			if i := try(cands); i >= 0 {
				tape = cands[i]
				changed = true
				idx = idxs[i]
			}
		}
		if !changed {
			break
		}
	}
	// verify 3 of 3 with identical event-log hash; if the minimised tape does not
	// re-verify (a candidate that only just reproduced), fall back to the tape as
	// recorded, which is verified the same way
	verify := func(tp []int32) (*runOut, string, string) {
		f := writeTape(r.bo.Dir, 999999, tp)
		defer os.Remove(f)
		hash := ""
		var last *runOut
		for i := 0; i < 3; i++ {
			oo := r.runOne(ctx, leg, seed, f, "VERIF_EMIT_TAPE=2", "VERIF_TRACE=1")
			if oo.trouble != "" || !hasSig(oo, sig) {
				return nil, "", "tape did not reproduce 3 of 3"
			}
			h := ""
			if oo.res != nil {
				h = oo.res.LogHash
			}
			if i > 0 && h != hash {
				return nil, "", "tape reproduced with differing event logs (nondeterminism)"
			}
			hash = h
			last = oo
		}
		return last, hash, ""
	}
	last, hash, why := verify(tape)
	if why != "" && len(tape) != len(recorded) {
		tape = recorded
		last, hash, why = verify(tape)
	}
	if why != "" {
		return "", why
	}
	var labels []string
	trace := ""
	if last.res != nil {
		labels = last.res.Labels
		trace = last.res.Trace
		if len(trace) > 20000 {
			trace = trace[:20000] + "\n...(truncated)"
		}
		// the tape as consumed (clamped values) is the canonical replay
		if last.res.Tape != nil {
			tape = trim(last.res.Tape)
			if len(labels) > len(tape) {
				labels = labels[:len(tape)]
			}
		}
	}
	for _, vv := range last.viols {
		if vv.sig() == sig {
			v = vv
		}
	}
	return r.writeReplayFull(prop, leg, seed, tape, labels, v, hash, orig, trace, "")
}

func (r *runner) writeReplay(prop string, leg *Leg, seed uint64, tape []int32, v viol, hash string, orig int, note string) (string, string) {
	return r.writeReplayFull(prop, leg, seed, tape, nil, v, hash, orig, "", note)
}

func (r *runner) writeReplayFull(prop string, leg *Leg, seed uint64, tape []int32, labels []string, v viol, hash string, orig int, trace, note string) (string, string) {
	rf := replayFile{Property: prop, Leg: leg.World, Race: leg.Race, Tier: r.tier, Seed: seed, Tape: tape, Labels: labels, LogHash: hash, OrigTapeLen: orig, Go: "go1.26.8", Trace: trace, Note: note}
	rf.Violation.Oracle = v.Oracle
	rf.Violation.Message = v.Msg
	rf.Violation.Sig = v.sig()
	dir := filepath.Join(verifDir(), "replays")
	if d := os.Getenv("VERIF_REPLAY_DIR"); d != "" {
		dir = d
	}
	os.MkdirAll(dir, 0o755)
	h := uint32(2166136261)
	for _, c := range []byte(v.sig()) {
		h = (h ^ uint32(c)) * 16777619
	}
	p := filepath.Join(dir, fmt.Sprintf("%s-%s-%d-%08x.json", prop, sanitize(leg.World), seed, h))
	b, _ := json.MarshalIndent(rf, "", " ")
	if err := os.WriteFile(p, b, 0o644); err != nil {
		return "", err.Error()
	}
	return p, fmt.Sprintf("tape minimised %d -> %d choices, reproduced 3/3", orig, len(tape))
}

func sanitize(s string) string {
	b := []byte(s)
	for i, c := range b {
		if !(c >= 'a' && c <= 'z' || c >= 'A' && c <= 'Z' || c >= '0' && c <= '9') {
			b[i] = '_'
		}
	}
	return string(b)
}

// cmdReplay rebuilds from the current working tree and replays one file.
func cmdReplay(args []string) int {
	if len(args) < 1 {
		fmt.Fprintln(os.Stderr, "usage: vcheck replay <file>")
		return 2
	}
	b, err := os.ReadFile(args[0])
	if err != nil {
		fmt.Fprintln(os.Stderr, err)
		return 2
	}
	var rf replayFile
	if err := json.Unmarshal(b, &rf); err != nil {
		fmt.Fprintln(os.Stderr, err)
		return 2
	}
	bo, err := build("replay", rf.Race)
	if err != nil {
		fmt.Fprintln(os.Stderr, "vcheck: BUILD FAILED:", err)
		return 2
	}
	defer os.RemoveAll(bo.Dir)
	r := &runner{bo: bo, tier: rf.Tier}
	leg := &Leg{World: rf.Leg, Race: rf.Race}
	tf := ""
	if rf.Tape != nil {
		tf = writeTape(bo.Dir, 1, rf.Tape)
	}
	logOn := "0"
	if len(args) > 1 && args[1] == "-log" {
		logOn = "1"
	}
	o := r.runOne(context.Background(), leg, rf.Seed, tf, "VERIF_TRACE=1", "VERIF_LOG="+logOn)
	if logOn == "1" {
		fmt.Println(o.stderr)
	}
	if o.trouble != "" {
		fmt.Fprintln(os.Stderr, "vcheck: replay trouble:", o.trouble)
		return 2
	}
	h := ""
	if o.res != nil {
		h = o.res.LogHash
	}
	if hasSig(o, rf.Violation.Sig) {
		fmt.Printf("REPRODUCED property=%s signature=%q event_log_hash=%s (recorded %s, match=%v)\n", rf.Property, rf.Violation.Sig, h, rf.LogHash, h == rf.LogHash || rf.LogHash == "")
		for _, v := range o.viols {
			fmt.Printf("  %s: %s\n", v.Oracle, v.Msg)
		}
		fmt.Printf("VIOLATION property=%s replay=%s\n", rf.Property, args[0])
		return 1
	}
	fmt.Printf("NOT REPRODUCED property=%s (outcome now: %d violations, event_log_hash=%s)\n", rf.Property, len(o.viols), h)
	for _, v := range o.viols {
		fmt.Printf("  other: %s: %s\n", v.Oracle, v.Msg)
	}
	return 0
}

// cmdSelftest runs the determinism gate: every seed several times in separate
// processes, plain and race binaries; all event-log hashes must agree.
func cmdSelftest(args []string) int {
	fs := flag.NewFlagSet("selftest", flag.ExitOnError)
	prop := fs.String("prop", "", "property id (all legs), or empty for all properties")
	seeds := fs.Int("seeds", 100, "seeds per leg")
	reps := fs.Int("reps", 3, "processes per seed and binary")
	tier := fs.String("tier", "quick", "tier")
	fs.Parse(args)
	bo, err := build("selftest", true)
	if err != nil {
		fmt.Fprintln(os.Stderr, "vcheck: BUILD FAILED:", err)
		return 2
	}
	defer os.RemoveAll(bo.Dir)
	r := &runner{bo: bo, tier: *tier}
	var props []string
	if *prop != "" {
		props = []string{*prop}
	} else {
		for p := range checks {
			props = append(props, p)
		}
		sort.Strings(props)
	}
	t0 := time.Now()
	bad := 0
	total := 0
	worlds := map[string]bool{}
	for _, p := range props {
		for _, l := range checks[p].Legs {
			if worlds[l.World] {
				continue
			}
			worlds[l.World] = true
			type key struct {
				seed uint64
			}
			var mu sync.Mutex
			hashes := map[uint64]map[string]int{}
			var wg sync.WaitGroup
			sem := make(chan struct{}, 16)
			for s := 0; s < *seeds; s++ {
				seed := baseSeed()*7919 + uint64(s)
				for _, race := range []bool{false, true} {
					for rep := 0; rep < *reps; rep++ {
						wg.Add(1)
						go func(seed uint64, race bool) {
							defer wg.Done()
							sem <- struct{}{}
							defer func() { <-sem }()
							leg := &Leg{World: l.World, Race: race}
							o := r.runOne(context.Background(), leg, seed, "")
							h := "DIED"
							if o.res != nil {
								h = o.res.LogHash + "/" + o.res.Outcome
							} else if o.trouble != "" {
								h = "TROUBLE:" + o.trouble
							}
							mu.Lock()
							if hashes[seed] == nil {
								hashes[seed] = map[string]int{}
							}
							hashes[seed][h]++
							total++
							mu.Unlock()
						}(seed, race)
					}
				}
			}
			wg.Wait()
			distinct := map[string]bool{}
			nd := 0
			for seed, hs := range hashes {
				if len(hs) != 1 {
					nd++
					if nd <= 5 {
						fmt.Printf("NONDETERMINISTIC world=%s seed=%d hashes=%v\n", l.World, seed, hs)
					}
				}
				for h := range hs {
					distinct[h] = true
				}
			}
			fmt.Printf("selftest world=%s seeds=%d processes=%d distinct_logs=%d nondeterministic_seeds=%d\n", l.World, *seeds, *seeds**reps*2, len(distinct), nd)
			bad += nd
		}
	}
	fmt.Printf("selftest total_processes=%d nondeterministic=%d wall=%.0fs\n", total, bad, time.Since(t0).Seconds())
	if bad > 0 {
		return 1
	}
	return 0
}
