#!/usr/bin/env python3
"""Regenerates /verif/MANIFEST.json from the table below (checks built so far)."""
import json, re, os

V = os.path.dirname(os.path.dirname(os.path.abspath(__file__)))
TECH = "deterministic simulation with fault injection: seeded driver over an in-memory network and fake clock (testing/synctest), real code of the repository instrumented with yield points, history oracles / reference models, race-detector monitor, tape shrinking and replay"

CHECKS = {
 "C01": ("Correlation oracle per client token over the real proxy + real agent + real net/http stacks, schedules and network timing chosen by the seeded driver; race-detector leg for the shared ID generator and pending table.", "5 C01"),
 "C02": ("Raw wire bytes at the client compared with raw wire bytes at the backend by an independent parser; input-dominated, the simulator adds segmentation, pauses, concurrent traffic and simulated time (slow bodies vs. the agent's timeout).", "5 C02"),
 "C03": ("Exact wire response of a scripted backend compared with what a raw client receives through agent and proxy; schedules of handler / serialiser / uploader goroutines and backend write pacing chosen by the driver; race-detector leg.", "5 C03"),
 "C04": ("Whole-history oracle (backend invocations per request ID) against scripted pending-list histories, and exactly-one-list-reply per ID with concurrent pollers against the real proxy.", "5 C04"),
 "C05": ("Liveness in simulated time with a lock-step producer: each flushed chunk must be visible at the proxy within a bound, otherwise the producer stalls and the run reports it exactly.", "5 C05"),
 "C06": ("Byte-level fault-injecting proxy endpoint: fault kind x byte offset x attempt; every acknowledged attempt must carry exactly the serialised response; scheduler interleaves the previous attempt's body sender with the retry; race-detector leg.", "5 C06"),
 "C07": ("Blast-set oracle: requests not touched by an injected failure (backend, proxy-side, shim input) must complete correctly, the agent must survive (crash monitor + race-detector leg), a later probe must be served, unreachable backend yields 502.", "5 C07"),
 "C08": ("Back-off envelope measured in simulated time between scripted failing list calls (zero network latency, exact clock); retry counts beyond reach are evaluated directly and reported separately.", "5 C08"),
 "C09": ("Header observation at a recording backend (HTTP and websocket handshake) for forged / repeated / odd-case identity and credential fields, all flag combinations, several users in flight.", "5 C09"),
 "C10": ("Differential run against an independent net/http/cookiejar per modelled session on the same simulated clock; tagged values make any cross-session leak visible; concurrent bursts; race-detector legs.", "5 C10"),
 "C11": ("Two FIFO reference queues per shim session compared at quiescence; batching and timing of data posts, polls and server sends chosen by the tape; header-injection clause compared as JSON values.", "5 C11"),
 "C12": ("Every shim call must be answered with a legal status in bounded simulated time; calls issued at the same instant are interleaved at yield points inside the shim handlers; crash monitor + race-detector leg.", "5 C12"),
 "C13": ("Closed-world network: every address dialled by any goroutine of the agent's host is recorded by SimNet; open bodies from a URL grammar and random bytes.", "5 C13"),
 "C14": ("Differential against the backend's own scripted response; read segmentation of the backend body (SimNet + backend write boundaries) is the simulated dimension.", "5 C14"),
 "C15": ("Per-connection, per-direction byte-stream equality through both real bridge programs, with simultaneous traffic, small buffers and segmentation; race-detector leg.", "5 C15"),
 "C16": ("Liveness in simulated time: after one TCP peer closes, the other must see end-of-stream within a budget; SimNet's connection table counts leaked bridge connections.", "5 C16"),
 "C17": ("Reference ACL table maintained from successful admin calls; every agent/user/admin call with generated identities is compared with it, store snapshot unchanged on rejection.", "5 C17"),
 "C18": ("Independent longest-prefix routing specification plus liveness window driven by the simulated clock and the history of agent polls; store faults injected.", "5 C18"),
 "C19": ("Byte equality through the fake App Engine platform (datastore/memcache stub) for sizes across the 1 MB part limit, concurrent handlers, per-RPC fault injection; every handler call must return within its deadline in simulated time.", "5 C19"),
 "C20": ("Reference model (consecutive-failure counter with reset, signal + grace timeline) compared with exit instants and list-call history in exact simulated time.", "5 C20"),
}

NA_REASON = "check not built yet in this round (world planned in DESIGN.md 5); not claimed until it exists"

def built():
    src = open(os.path.join(V, "tools/vcheck/checks.go")).read()
    return sorted(set(re.findall(r'^\t"(C\d+)": \{', src, re.M)))

def main():
    have = built()
    props = [json.loads(l)["id"] for l in open(os.path.join(V, "properties.jsonl"))]
    checks = []
    for p in have:
        text, ref = CHECKS[p]
        checks.append({
            "property_id": p,
            "quick_cmd": "./bin/vcheck run -prop %s -tier quick" % p,
            "thorough_cmd": "./bin/vcheck run -prop %s -tier thorough" % p,
            "evidence_file": "evidence/%s.json" % p,
            "replay_cmd_template": "./bin/vcheck replay {path}",
            "engine": "vcheck",
            "level_claimed": {"category": "exploration", "text": text + " Seeded search: a clean batch is evidence, not proof.", "design_ref": "DESIGN.md " + ref},
            "level_note": "Trusts testing/synctest, the runtime overlay (deterministic scheduling choices, mutex wait counted idle), SimNet's TCP model and the harness peers; interleavings inside library code are not enumerated; see the evidence file's assumptions.",
            "technique": TECH,
        })
    m = {
        "version": 1,
        "setup_cmd": "./setup.sh",
        "hooks": {
            "guard": "none - all instrumentation is a check-time overlay generated from the working tree (tools/instrument); /repo is never modified by hooks",
            "enable": "vcheck rewrites a copy of /repo's non-test Go files (yield points + seams for sockets, exit, signals, flags, unseeded randomness, cloud credentials) and passes it to `go test -overlay` together with patched go1.26.8 runtime files; see DESIGN.md 2.1",
            "baseline_off_cmd": "cd /repo && go test -mod=mod -vet=off -count=1 ./...",
            "source_commits": [],
            "add_only": True,
        },
        "engines": [
            {"name": "vcheck", "path": "tools/vcheck", "serves_properties": have, "kind_free_text": "orchestrator: overlay build from the working tree, seed fan-out over fresh OS processes, tape shrinker, replay, known-findings, evidence"},
            {"name": "instrument", "path": "tools/instrument", "serves_properties": have, "kind_free_text": "go/ast rewriter producing the overlay (yields, seams, package renames)"},
            {"name": "sim", "path": "sim", "serves_properties": have, "kind_free_text": "simulation kernel: tape, driver, SimNet with fault rules, process stand-ins, race-detector transparency"},
            {"name": "harness", "path": "harness", "serves_properties": have, "kind_free_text": "worlds, scripted peers (fake proxy, raw client/backend, shim client, websocket/TCP peers, App Engine platform stub) and oracles"},
        ],
        "checks": checks,
        "not_applicable": [{"property_id": p, "reason": NA_REASON} for p in props if p not in have],
        "notes": "Genuine defects found by these checks were repaired in /repo as 'fix:' commits or are listed in known_findings.json (KNOWN-FINDING lines, exit 0); see DESIGN.md 7 and 10.",
    }
    json.dump(m, open(os.path.join(V, "MANIFEST.json"), "w"), indent=1)
    print("checks:", have, "not_applicable:", [x["property_id"] for x in m["not_applicable"]])

main()
