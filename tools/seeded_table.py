#!/usr/bin/env python3
"""Rewrites the table at the end of DESIGN.md section 11 from seeded/*/meta.json."""
import json, glob, os
V = os.path.dirname(os.path.dirname(os.path.abspath(__file__)))
rows = []
for d in sorted(glob.glob(V + '/seeded/*/')):
    m = json.load(open(d + 'meta.json'))
    name = os.path.basename(d.rstrip('/'))
    outs = [l for l in m.get('check_output', []) if 'oracle=' in l]
    first = ''
    if outs:
        o = outs[0].strip()
        first = o[o.index('oracle=') + 7:].split(' message=')[0] + ': ' + o.split(' message=')[1].split(' | ')[0].split(' (leg')[0][:110]
    chk = m['check_cmd'].split('-prop ')[1].split()[0]
    rows.append("| %s | %s | %s | %s |\n" % (name, m['needs'][:160].replace('|', '/'), chk, first.replace('|', '/')))
p = V + '/DESIGN.md'
s = open(p).read()
marker = "| seeded change | needs, to manifest | caught by | first violation reported |\n|---|---|---|---|\n"
i = s.index(marker)
rest = s[i + len(marker):]
# the table ends at the first line that is not a table row
j = 0
for line in rest.splitlines(True):
    if not line.startswith('|'):
        break
    j += len(line)
open(p, 'w').write(s[:i] + marker + ''.join(rows) + rest[j:])
print(len(rows), "rows")
