#!/usr/bin/env python3
"""Confirms a seeded property-breaking change and runs the property's check against it.

usage: seed_eval.py <prop> <name> <mutant_dir> <demo_file> <demo_target_dir> <test_regex> <pkg> [--needs TEXT] [--budget N] [--keep] [--check PROP]

Steps (all in a scratch copy of /repo's HEAD outside /repo and /verif):
 1. demo passes without the patch
 2. patch applies; code builds; existing unit tests still pass
 3. demo fails with the patch
 4. the property's quick check (VERIF_REPO=scratch) reports a VIOLATION (exit 1)
Writes /verif/seeded/<prop>-<name>/{patch.diff,<demo>,meta.json} when 1-3 hold.
"""
import json, os, shutil, subprocess, sys, tempfile, time

ENV = dict(os.environ, GOFLAGS="-mod=mod", GOPROXY="off", GOSUMDB="off")
UNIT = "go build ./... && go test -vet=off -count=1 ./agent/banner/ ./agent/metrics/ ./agent/sessions/ ./agent/utils/ ./agent/websockets/ ./utils/... ./server/... ./app/..."

def sh(cmd, cwd, timeout=900):
    p = subprocess.run(cmd, shell=True, cwd=cwd, env=ENV, stdout=subprocess.PIPE, stderr=subprocess.STDOUT, timeout=timeout)
    return p.returncode, p.stdout.decode(errors="replace")

def main():
    a = sys.argv[1:]
    needs, budget, keep, check = "", "30", False, ""
    pos = []
    i = 0
    while i < len(a):
        if a[i] == "--needs": needs = a[i+1]; i += 2
        elif a[i] == "--budget": budget = a[i+1]; i += 2
        elif a[i] == "--keep": keep = True; i += 1
        elif a[i] == "--check": check = a[i+1]; i += 2
        else: pos.append(a[i]); i += 1
    prop, name, mdir, demo, target, regex, pkg = pos
    d = tempfile.mkdtemp(prefix="seed.", dir="/tmp")
    res = {"property": prop, "name": name, "needs": needs, "ran": []}
    try:
        subprocess.check_call("git -C /repo archive HEAD | tar -x -C %s" % d, shell=True)
        res["base_commit"] = subprocess.check_output("git -C /repo rev-parse --short HEAD", shell=True).decode().strip()
        demo_src = os.path.join(mdir, demo)
        is_dir = os.path.isdir(demo_src)
        if is_dir:
            shutil.copytree(demo_src, os.path.join(d, target))
        else:
            os.makedirs(os.path.join(d, target), exist_ok=True)
            shutil.copy(demo_src, os.path.join(d, target, os.path.basename(demo)))
        run = "go test -vet=off -count=1 -run '%s' %s" % (regex, pkg)
        if regex == "RUN":
            run = "go run %s" % pkg
        rc, out = sh(run, d)
        res["ran"].append({"cmd": run + "   # without the change", "exit": rc})
        res["demo_passes_without"] = rc == 0
        if rc != 0:
            print("DEMO FAILS WITHOUT PATCH\n" + out[-1500:])
        pfile = os.path.join(mdir, "patch.diff")
        if os.path.exists(os.path.join(mdir, "patch_head.diff")):
            # the same change ported by hand onto the current HEAD (a later fix:
            # commit touched the lines the original patch changes)
            pfile = os.path.join(mdir, "patch_head.diff")
            res["ported_patch"] = True
        rc, out = sh("git init -q . 2>/dev/null; git apply --whitespace=nowarn %s" % pfile, d)
        if rc != 0:
            rc, out = sh("patch -p1 -F3 --no-backup-if-mismatch < %s" % pfile, d)
        res["patch_applies"] = rc == 0
        if rc != 0:
            print("PATCH DOES NOT APPLY TO CURRENT HEAD\n" + out[-1500:])
            print(json.dumps(res)); return 3
        rc, out = sh(run, d)
        res["ran"].append({"cmd": run + "   # with the change", "exit": rc})
        res["demo_fails_with"] = rc != 0
        if rc == 0:
            print("DEMO STILL PASSES WITH PATCH")
        if is_dir:
            shutil.rmtree(os.path.join(d, target))
        else:
            os.remove(os.path.join(d, target, os.path.basename(demo)))
        rc, out = sh(UNIT, d)
        res["ran"].append({"cmd": UNIT + "   # with the change", "exit": rc})
        res["unit_tests_pass_with"] = rc == 0
        if rc != 0:
            print("UNIT TESTS FAIL WITH PATCH\n" + out[-1500:])
        shutil.rmtree(os.path.join(d, ".git"), ignore_errors=True)
        t0 = time.time()
        env = dict(ENV, VERIF_REPO=d, VERIF_EVIDENCE_DIR=os.path.join(d, "_evidence"), VERIF_REPLAY_DIR=os.path.join(d, "_replays"))
        cprop = check or prop
        p = subprocess.run("./bin/vcheck run -prop %s -budget %s" % (cprop, budget), shell=True, cwd="/verif", env=env, stdout=subprocess.PIPE, stderr=subprocess.STDOUT)
        out = p.stdout.decode(errors="replace")
        res["check_cmd"] = "VERIF_REPO=<scratch copy with the change> ./bin/vcheck run -prop %s -budget %s" % (cprop, budget)
        if check:
            res["note"] = "breaks %s under conditions that are %s's domain; caught by the %s check (check_cmd below)" % (prop, check, check)
        res["check_exit"] = p.returncode
        res["check_wall_s"] = round(time.time() - t0, 1)
        lines = [l for l in out.split("\n") if l.startswith("VIOLATION") or l.startswith("  oracle=") or l.startswith("KNOWN") or l.startswith("vcheck:")]
        res["check_output"] = [l[:400] for l in lines[:8]]
        res["detected"] = p.returncode == 1
        ok = res.get("demo_passes_without") and res.get("demo_fails_with") and res.get("unit_tests_pass_with")
        res["confirmed"] = bool(ok)
        if ok:
            sd = "/verif/seeded/%s-%s" % (prop, name)
            os.makedirs(sd, exist_ok=True)
            same = os.path.realpath(sd) == os.path.realpath(mdir)
            if same:
                json.dump(res, open(os.path.join(sd, "meta.json"), "w"), indent=1)
                print("RESULT %s-%s confirmed=%s detected=%s exit=%s" % (prop, name, res["confirmed"], res["detected"], p.returncode))
                for l in res["check_output"]:
                    print("   ", l[:300])
                return 0
            shutil.copy(os.path.join(mdir, "patch.diff"), sd)
            if os.path.exists(os.path.join(mdir, "patch_head.diff")):
                shutil.copy(os.path.join(mdir, "patch_head.diff"), sd)
            if is_dir:
                shutil.copytree(demo_src, os.path.join(sd, os.path.basename(demo_src.rstrip("/"))), dirs_exist_ok=True)
            else:
                shutil.copy(demo_src, sd)
            if os.path.exists(os.path.join(mdir, "README.md")):
                shutil.copy(os.path.join(mdir, "README.md"), sd)
            json.dump(res, open(os.path.join(sd, "meta.json"), "w"), indent=1)
        print("RESULT %s-%s confirmed=%s detected=%s exit=%s" % (prop, name, res["confirmed"], res["detected"], p.returncode))
        for l in res["check_output"]:
            print("   ", l[:300])
        return 0
    finally:
        if not keep:
            shutil.rmtree(d, ignore_errors=True)

sys.exit(main())
