#!/usr/bin/env python3
"""Re-runs the property checks against every kept seeded change (detection only).

usage: seeded_recheck.py [--budget N|quota] [--only C07-3,C10-1]   (run several instances with disjoint --only lists to use more cores)

For each /verif/seeded/<prop>-<n>/: scratch copy of /repo's HEAD (outside /repo
and /verif), apply patch.diff, run the quick check of the property that caught
it (taken from meta.json "check_cmd") with VERIF_REPO=<scratch>,
and record the outcome in meta.json under "recheck". A patch that no longer
applies to HEAD (a later fix: commit touched the same lines) is applied to a
copy of its recorded base commit instead, unless the directory holds a
patch_head.diff (the same change ported by hand); either is noted in the record.
"""
import json, os, re, shutil, subprocess, sys, tempfile, time, glob

ENV = dict(os.environ, GOFLAGS="-mod=mod", GOPROXY="off", GOSUMDB="off")

def sh(cmd, cwd):
    p = subprocess.run(cmd, shell=True, cwd=cwd, env=ENV, stdout=subprocess.PIPE, stderr=subprocess.STDOUT)
    return p.returncode, p.stdout.decode(errors="replace")

def one(sd, budget):
    meta_p = os.path.join(sd, "meta.json")
    meta = json.load(open(meta_p))
    prop = meta["property"]
    m = re.search(r"-prop (\w+)", meta.get("check_cmd", ""))
    if m:
        prop = m.group(1)
    head = subprocess.check_output("git -C /repo rev-parse --short HEAD", shell=True).decode().strip()
    d = tempfile.mkdtemp(prefix="recheck.", dir="/tmp")
    rec = {"head": head, "budget": budget}
    try:
        base = "HEAD"
        subprocess.check_call("git -C /repo archive HEAD | tar -x -C %s" % d, shell=True)
        patch = os.path.join(sd, "patch.diff")
        if os.path.exists(os.path.join(sd, "patch_head.diff")):
            # the same change ported by hand onto a later HEAD (a fix: commit
            # touched the lines the original patch changes)
            patch = os.path.join(sd, "patch_head.diff")
            rec["ported_patch"] = True
        rc, out = sh("git init -q . 2>/dev/null; git apply --whitespace=nowarn %s" % patch, d)
        if rc != 0:
            rc, out = sh("patch -p1 -F3 --no-backup-if-mismatch < %s" % patch, d)
        if rc != 0:
            # fall back to the commit the change was written against
            shutil.rmtree(d); os.makedirs(d)
            base = meta.get("base_commit", "HEAD")
            subprocess.check_call("git -C /repo archive %s | tar -x -C %s" % (base, d), shell=True)
            rc, out = sh("git init -q . 2>/dev/null; git apply --whitespace=nowarn %s" % patch, d)
        rec["applied_to"] = base
        if rc != 0:
            rec["error"] = "patch does not apply: " + out[-300:]
            return rec
        rc, out = sh("go build ./...", d)
        if rc != 0:
            rec["error"] = "does not build: " + out[-300:]
            return rec
        shutil.rmtree(os.path.join(d, ".git"), ignore_errors=True)
        env = dict(ENV, VERIF_REPO=d, VERIF_EVIDENCE_DIR=os.path.join(d, "_evidence"), VERIF_REPLAY_DIR=os.path.join(d, "_replays"))
        t0 = time.time()
        # budget "quota": the quick tier as registered in MANIFEST.json (fixed quota of runs per leg)
        cmdline = "./bin/vcheck run -prop %s -tier quick" % prop if budget == "quota" else "./bin/vcheck run -prop %s -budget %s" % (prop, budget)
        p = subprocess.run(cmdline, shell=True, cwd="/verif", env=env, stdout=subprocess.PIPE, stderr=subprocess.STDOUT)
        out = p.stdout.decode(errors="replace")
        rec["check"] = prop
        rec["exit"] = p.returncode
        rec["wall_s"] = round(time.time() - t0, 1)
        rec["detected"] = p.returncode == 1
        rec["output"] = [l[:300] for l in out.split("\n") if l.startswith("VIOLATION") or l.startswith("  oracle=") or l.startswith("vcheck:")][:6]
        return rec
    finally:
        shutil.rmtree(d, ignore_errors=True)
        meta["recheck"] = rec
        json.dump(meta, open(meta_p, "w"), indent=1)

def main():
    a = sys.argv[1:]
    budget, only = "20", None
    i = 0
    while i < len(a):
        if a[i] == "--budget": budget = a[i+1]; i += 2
        elif a[i] == "--only": only = set(a[i+1].split(",")); i += 2
        else: i += 1
    bad = 0
    for sd in sorted(glob.glob("/verif/seeded/*/")):
        name = os.path.basename(sd.rstrip("/"))
        if only and name not in only:
            continue
        rec = one(sd.rstrip("/"), budget)
        ok = rec.get("detected")
        if not ok:
            bad += 1
        print("RECHECK %s detected=%s exit=%s applied_to=%s %s" % (name, ok, rec.get("exit"), rec.get("applied_to"), rec.get("error", "")), flush=True)
    print("recheck done, not detected: %d" % bad)
    return 1 if bad else 0

sys.exit(main())
