// Command instrument rewrites the repository's own Go files into an overlay:
// preemption points (sim.Y) before synchronisation operations, mutex tracking,
// and seams for process-global facilities (sockets, exit, signals, flags,
// unseeded randomness, cloud credentials). All rules are syntactic and name no
// identifier of the repository; /repo on disk is never written.
//
//	instrument -repo /repo -out DIR [-noyield]
//
// writes DIR/src/... and DIR/overlay.json and DIR/sites.json.
package main

import (
	"bytes"
	"encoding/json"
	"flag"
	"fmt"
	"go/ast"
	"go/parser"
	"go/printer"
	"go/token"
	"os"
	"path/filepath"
	"sort"
	"strconv"
	"strings"
)

const simPath = "verif/sim"
const simName = "simhook"

var (
	repo    = flag.String("repo", "/repo", "repository root")
	out     = flag.String("out", "", "output directory")
	noYield = flag.Bool("noyield", false, "seams only, no preemption points")
	module  = flag.String("module", "github.com/google/inverting-proxy", "module path")
)

type site struct {
	ID   int    `json:"id"`
	File string `json:"file"`
	Line int    `json:"line"`
	Kind string `json:"kind"`
}

var sites []site
var testFiles []string

type fileRW struct {
	fset    *token.FileSet
	f       *ast.File
	rel     string
	imports map[string]string // local name -> path
	isMain  bool
	prog    string
	usedSim bool
}

func main() {
	flag.Parse()
	if *out == "" {
		fmt.Fprintln(os.Stderr, "need -out")
		os.Exit(2)
	}
	overlay := map[string]string{}
	var mains []string
	err := filepath.Walk(*repo, func(p string, info os.FileInfo, err error) error {
		if err != nil {
			return err
		}
		if info.IsDir() {
			b := info.Name()
			if b == ".git" || b == "vendor" || b == "testdata" || (strings.HasPrefix(b, ".") && p != *repo) {
				return filepath.SkipDir
			}
			return nil
		}
		if strings.HasSuffix(p, "_test.go") {
			// test files of renamed main packages are hidden from the build
			testFiles = append(testFiles, p)
			return nil
		}
		if !strings.HasSuffix(p, ".go") {
			return nil
		}
		rel, _ := filepath.Rel(*repo, p)
		dst := filepath.Join(*out, "src", rel)
		isMain, prog, err := rewriteFile(p, rel, dst)
		if err != nil {
			return fmt.Errorf("%s: %v", rel, err)
		}
		overlay[p] = dst
		if isMain {
			dir := filepath.Dir(p)
			seen := false
			for _, m := range mains {
				if m == dir {
					seen = true
				}
			}
			if !seen {
				mains = append(mains, dir)
				extra := filepath.Join(dir, "zz_sim_main.go")
				edst := filepath.Join(*out, "src", filepath.Dir(rel), "zz_sim_main.go")
				src := fmt.Sprintf("package %s\n\nimport %s %q\n\nvar simFlags = %s.NewFlagSet(%q)\n\n// Main runs the program's main function; returning from main ends the process.\nfunc Main() {\n\tmain()\n\t%s.Exit(0)\n}\n",
					mainPkgName(dir), simName, simPath, simName, prog, simName)
				if err := os.WriteFile(edst, []byte(src), 0o644); err != nil {
					return err
				}
				overlay[extra] = edst
			}
		}
		return nil
	})
	if err != nil {
		fmt.Fprintln(os.Stderr, "instrument:", err)
		os.Exit(2)
	}
	for _, tf := range testFiles {
		for _, m := range mains {
			if filepath.Dir(tf) == m {
				overlay[tf] = ""
			}
		}
	}
	ob, _ := json.MarshalIndent(map[string]interface{}{"Replace": overlay}, "", " ")
	if err := os.WriteFile(filepath.Join(*out, "overlay.json"), ob, 0o644); err != nil {
		fmt.Fprintln(os.Stderr, "instrument:", err)
		os.Exit(2)
	}
	sb, _ := json.Marshal(sites)
	os.WriteFile(filepath.Join(*out, "sites.json"), sb, 0o644)
}

func mainPkgName(dir string) string {
	b := filepath.Base(dir)
	var sb strings.Builder
	for _, r := range b {
		if (r >= 'a' && r <= 'z') || (r >= '0' && r <= '9') || (r >= 'A' && r <= 'Z') {
			sb.WriteRune(r)
		}
	}
	return strings.ToLower(sb.String()) + "main"
}

func progName(dir string) string { return filepath.Base(dir) }

func rewriteFile(src, rel, dst string) (bool, string, error) {
	fset := token.NewFileSet()
	f, err := parser.ParseFile(fset, src, nil, parser.SkipObjectResolution)
	if err != nil {
		return false, "", err
	}
	r := &fileRW{fset: fset, f: f, rel: rel, imports: map[string]string{}}
	for _, is := range f.Imports {
		p, _ := strconv.Unquote(is.Path.Value)
		name := defaultName(p)
		if is.Name != nil {
			name = is.Name.Name
		}
		r.imports[name] = p
	}
	if f.Name.Name == "main" {
		r.isMain = true
		r.prog = progName(filepath.Dir(src))
		f.Name.Name = mainPkgName(filepath.Dir(src))
	}
	r.seams()
	if !*noYield {
		r.yields()
	}
	r.fixImports()
	var buf bytes.Buffer
	cfg := printer.Config{Mode: printer.UseSpaces | printer.TabIndent, Tabwidth: 8}
	if err := cfg.Fprint(&buf, fset, f); err != nil {
		return false, "", err
	}
	if err := os.MkdirAll(filepath.Dir(dst), 0o755); err != nil {
		return false, "", err
	}
	// re-parse as a sanity check: the rewritten file must be valid Go
	if _, err := parser.ParseFile(token.NewFileSet(), dst, buf.Bytes(), 0); err != nil {
		return false, "", fmt.Errorf("rewritten file does not parse: %v", err)
	}
	return r.isMain, r.prog, os.WriteFile(dst, buf.Bytes(), 0o644)
}

func defaultName(path string) string {
	parts := strings.Split(path, "/")
	last := parts[len(parts)-1]
	if len(parts) > 1 && len(last) >= 2 && last[0] == 'v' {
		if _, err := strconv.Atoi(last[1:]); err == nil {
			last = parts[len(parts)-2]
		}
	}
	last = strings.TrimPrefix(last, "go-")
	if i := strings.LastIndex(last, "."); i >= 0 && !strings.Contains(path, "gopkg.in") {
		// e.g. "gopkg.in/yaml.v2" style is not used here
		_ = i
	}
	return last
}

func (r *fileRW) sim(fn string) ast.Expr {
	r.usedSim = true
	return &ast.SelectorExpr{X: ast.NewIdent(simName), Sel: ast.NewIdent(fn)}
}

func (r *fileRW) simCall(fn string, args ...ast.Expr) *ast.CallExpr {
	return &ast.CallExpr{Fun: r.sim(fn), Args: args}
}

func intLit(n int) ast.Expr { return &ast.BasicLit{Kind: token.INT, Value: strconv.Itoa(n)} }

func (r *fileRW) newSite(pos token.Pos, kind string) ast.Stmt {
	p := r.fset.Position(pos)
	id := len(sites) + 1
	sites = append(sites, site{ID: id, File: r.rel, Line: p.Line, Kind: kind})
	return &ast.ExprStmt{X: r.simCall("Y", intLit(id))}
}

// pkgSel reports whether e is a selector pkg.Name on an import of path.
func (r *fileRW) pkgSel(e ast.Expr, path string) (string, bool) {
	se, ok := e.(*ast.SelectorExpr)
	if !ok {
		return "", false
	}
	id, ok := se.X.(*ast.Ident)
	if !ok {
		return "", false
	}
	if r.imports[id.Name] != path {
		return "", false
	}
	return se.Sel.Name, true
}

var randFuncs = map[string]string{
	"Float64": "RandFloat64", "Int63": "RandInt63", "Intn": "RandIntn", "Int": "RandInt",
	"Int63n": "RandInt63n", "Int31n": "RandInt31n",
}

// seams replaces process-global facilities by their simulation stand-ins.
func (r *fileRW) seams() {
	ast.Inspect(r.f, func(n ast.Node) bool {
		switch n := n.(type) {
		case *ast.StarExpr:
			// *net.TCPConn (type assertions, declarations): the simulated connection
			// offers the TCP-specific calls (SetLinger, SetNoDelay, CloseRead, ...)
			if name, ok := r.pkgSel(n.X, "net"); ok && name == "TCPConn" {
				n.X = r.sim("Conn")
			}
			return true
		case *ast.CallExpr:
			if name, ok := r.pkgSel(n.Fun, "flag"); ok && r.isMain {
				if name == "Parse" {
					n.Fun = r.sim("ParseFlags")
					n.Args = []ast.Expr{ast.NewIdent("simFlags"), &ast.BasicLit{Kind: token.STRING, Value: strconv.Quote(r.prog)}}
				} else {
					n.Fun.(*ast.SelectorExpr).X = ast.NewIdent("simFlags")
				}
				return true
			}
			if name, ok := r.pkgSel(n.Fun, "log"); ok && (name == "Fatal" || name == "Fatalf" || name == "Fatalln") {
				n.Fun = r.sim(name)
				return true
			}
			if name, ok := r.pkgSel(n.Fun, "os"); ok && name == "Exit" {
				n.Fun = r.sim("Exit")
				return true
			}
			if name, ok := r.pkgSel(n.Fun, "os/signal"); ok && (name == "Notify" || name == "Stop") {
				n.Fun = r.sim("Signal" + name)
				return true
			}
			if name, ok := r.pkgSel(n.Fun, "net"); ok && (name == "Dial" || name == "Listen") {
				n.Fun = r.sim(name)
				return true
			}
			if name, ok := r.pkgSel(n.Fun, "net/http"); ok && name == "ListenAndServe" {
				n.Fun = r.sim("ListenAndServe")
				return true
			}
			// srv.ListenAndServe() on an *http.Server value: listen on the simulated network
			if se, ok := n.Fun.(*ast.SelectorExpr); ok && se.Sel.Name == "ListenAndServe" && len(n.Args) == 0 {
				if id, isIdent := se.X.(*ast.Ident); !isIdent || r.imports[id.Name] == "" {
					n.Fun = r.sim("ServeServer")
					n.Args = []ast.Expr{se.X}
					return true
				}
			}
			if name, ok := r.pkgSel(n.Fun, "math/rand"); ok {
				if repl, ok := randFuncs[name]; ok {
					n.Fun = r.sim(repl)
				}
				return true
			}
			if name, ok := r.pkgSel(n.Fun, "golang.org/x/oauth2/google"); ok {
				if name == "NewSDKConfig" {
					n.Fun = r.sim("CloudSDKConfig")
				} else if name == "DefaultClient" {
					n.Fun = r.sim("CloudDefaultClient")
				}
				return true
			}
			if name, ok := r.pkgSel(n.Fun, "cloud.google.com/go/compute/metadata"); ok {
				if name == "OnGCE" {
					n.Fun = r.sim("OnGCE")
				} else if name == "Get" {
					n.Fun = r.sim("MetadataGet")
				}
				return true
			}
		}
		return true
	})
}

// direct reports the kinds of synchronisation operations a statement contains
// outside nested blocks and function literals.
func direct(s ast.Stmt) (kinds []string) {
	add := func(k string) { kinds = append(kinds, k) }
	var visit func(n ast.Node) bool
	visit = func(n ast.Node) bool {
		switch n := n.(type) {
		case *ast.BlockStmt, *ast.FuncLit, *ast.CaseClause, *ast.CommClause:
			return false
		case *ast.SendStmt:
			add("send")
		case *ast.UnaryExpr:
			if n.Op == token.ARROW {
				add("recv")
			}
		case *ast.SelectStmt:
			add("select")
			return false
		case *ast.GoStmt:
			add("go")
			for _, a := range n.Call.Args {
				ast.Inspect(a, visit)
			}
			return false
		case *ast.DeferStmt:
			return false
		case *ast.CallExpr:
			if id, ok := n.Fun.(*ast.Ident); ok && id.Name == "close" && len(n.Args) == 1 {
				add("close")
			}
			if se, ok := n.Fun.(*ast.SelectorExpr); ok && len(n.Args) == 0 {
				if se.Sel.Name == "Lock" || se.Sel.Name == "RLock" {
					add("lock")
				}
			}
			// atomic operations and sync.Map-style accessors are synchronisation
			// points too: two of them in a row are not atomic together
			if se, ok := n.Fun.(*ast.SelectorExpr); ok {
				if id, ok := se.X.(*ast.Ident); ok && id.Name == "atomic" {
					add("atomic")
				} else {
					switch se.Sel.Name {
					case "LoadOrStore", "LoadAndDelete", "CompareAndSwap", "CompareAndDelete", "Swap":
						add("atomic")
					case "Load", "Store", "Delete", "Add":
						if len(n.Args) <= 2 && isSyncish(se.X) {
							add("atomic")
						}
					}
				}
			}
		}
		return true
	}
	switch s := s.(type) {
	case *ast.IfStmt:
		if s.Init != nil {
			ast.Inspect(s.Init, visit)
		}
		ast.Inspect(s.Cond, visit)
	case *ast.ForStmt:
		if s.Init != nil {
			ast.Inspect(s.Init, visit)
		}
		if s.Cond != nil {
			ast.Inspect(s.Cond, visit)
		}
	case *ast.RangeStmt:
		ast.Inspect(s.X, visit)
	case *ast.SwitchStmt:
		if s.Init != nil {
			ast.Inspect(s.Init, visit)
		}
		if s.Tag != nil {
			ast.Inspect(s.Tag, visit)
		}
	case *ast.TypeSwitchStmt:
		if s.Init != nil {
			ast.Inspect(s.Init, visit)
		}
		ast.Inspect(s.Assign, visit)
	case *ast.LabeledStmt:
		return direct(s.Stmt)
	case *ast.BlockStmt:
	default:
		ast.Inspect(s, visit)
	}
	return kinds
}

// isSyncish guesses (by name) that a receiver is a sync.Map, an atomic value or a counter.
func isSyncish(e ast.Expr) bool {
	name := ""
	switch x := e.(type) {
	case *ast.Ident:
		name = x.Name
	case *ast.SelectorExpr:
		name = x.Sel.Name
	}
	name = strings.ToLower(name)
	for _, k := range []string{"conn", "map", "count", "counter", "sess", "cache", "atomic", "flag", "state", "seq", "id"} {
		if strings.Contains(name, k) {
			return true
		}
	}
	return false
}

func methodCallStmt(s ast.Stmt) (recv ast.Expr, name string, ok bool) {
	es, ok := s.(*ast.ExprStmt)
	if !ok {
		return nil, "", false
	}
	ce, ok := es.X.(*ast.CallExpr)
	if !ok || len(ce.Args) != 0 {
		return nil, "", false
	}
	se, ok := ce.Fun.(*ast.SelectorExpr)
	if !ok {
		return nil, "", false
	}
	return se.X, se.Sel.Name, true
}

func (r *fileRW) list(list []ast.Stmt) []ast.Stmt {
	var out []ast.Stmt
	for _, s := range list {
		// never touch our own insertions
		if es, ok := s.(*ast.ExprStmt); ok {
			if ce, ok := es.X.(*ast.CallExpr); ok {
				if se, ok := ce.Fun.(*ast.SelectorExpr); ok {
					if id, ok := se.X.(*ast.Ident); ok && id.Name == simName {
						out = append(out, s)
						continue
					}
				}
			}
		}
		kinds := direct(s)
		if len(kinds) > 0 {
			out = append(out, r.newSite(s.Pos(), strings.Join(kinds, "+")))
		}
		if _, name, ok := methodCallStmt(s); ok && (name == "Unlock" || name == "RUnlock") {
			out = append(out, s)
			out = append(out, r.newSite(s.Pos(), "unlock"))
			continue
		}
		out = append(out, s)
		if gs, ok := s.(*ast.GoStmt); ok {
			if fl, ok := gs.Call.Fun.(*ast.FuncLit); ok {
				fl.Body.List = append([]ast.Stmt{r.newSite(fl.Body.Pos(), "gostart")}, fl.Body.List...)
			}
		}
	}
	return out
}

// yields inserts preemption points and mutex tracking.
func (r *fileRW) yields() {
	ast.Inspect(r.f, func(n ast.Node) bool {
		switch n := n.(type) {
		case *ast.BlockStmt:
			n.List = r.list(n.List)
		case *ast.CaseClause:
			n.Body = r.list(n.Body)
		case *ast.CommClause:
			n.Body = append([]ast.Stmt{r.newSite(n.Pos(), "selected")}, r.list(n.Body)...)
		case *ast.RangeStmt:
			if n.Value == nil {
				n.Body.List = append([]ast.Stmt{r.newSite(n.Body.Pos(), "rangebody")}, n.Body.List...)
			}
		}
		return true
	})
}

// fixImports drops imports that are no longer referenced and adds the hook package.
func (r *fileRW) fixImports() {
	used := map[string]bool{}
	ast.Inspect(r.f, func(n ast.Node) bool {
		if se, ok := n.(*ast.SelectorExpr); ok {
			if id, ok := se.X.(*ast.Ident); ok {
				used[id.Name] = true
			}
		}
		return true
	})
	for _, d := range r.f.Decls {
		gd, ok := d.(*ast.GenDecl)
		if !ok || gd.Tok != token.IMPORT {
			continue
		}
		var specs []ast.Spec
		for _, s := range gd.Specs {
			is := s.(*ast.ImportSpec)
			p, _ := strconv.Unquote(is.Path.Value)
			name := defaultName(p)
			if is.Name != nil {
				name = is.Name.Name
			}
			if name == "_" || name == "." || used[name] {
				specs = append(specs, s)
			}
		}
		gd.Specs = specs
	}
	// remove empty import decls
	var decls []ast.Decl
	for _, d := range r.f.Decls {
		if gd, ok := d.(*ast.GenDecl); ok && gd.Tok == token.IMPORT && len(gd.Specs) == 0 {
			continue
		}
		decls = append(decls, d)
	}
	r.f.Decls = decls
	if r.usedSim {
		imp := &ast.GenDecl{Tok: token.IMPORT, Specs: []ast.Spec{&ast.ImportSpec{
			Name: ast.NewIdent(simName),
			Path: &ast.BasicLit{Kind: token.STRING, Value: strconv.Quote(simPath)},
		}}}
		r.f.Decls = append([]ast.Decl{imp}, r.f.Decls...)
	}
	r.f.Comments = nil
	r.f.Doc = nil
	r.f.Imports = nil
	_ = sort.Strings
}
