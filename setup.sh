#!/bin/bash
# Builds the verification tools from files on disk only (offline).
set -e
cd "$(dirname "$0")"
export GOFLAGS=-mod=mod GOPROXY=off GOSUMDB=off GOTOOLCHAIN=local GOWORK=off
GO=/opt/veriftools/go1.26.8/bin/go
mkdir -p bin evidence replays .build
(cd tools && $GO build -o ../bin/instrument ./instrument && $GO build -o ../bin/vcheck ./vcheck)
if [ -x ./third_party_setup.sh ]; then ./third_party_setup.sh; fi
if [ "$1" != "nowarm" ]; then
  # warm the build cache (std with and without -race, harness) so that checks start fast
  ./bin/vcheck build race >/dev/null
  rm -rf .build/dev-*
fi
echo setup ok
