// Package simplatform is a stand-in for the App Engine platform services used
// by the inverting proxy's App Engine flavour: the per-request context, the
// datastore_v3, memcache and user RPC services. It lives inside a local copy
// of the appengine/v2 module (created by /verif/third_party_setup.sh) because
// it needs that module's internal packages; the code under test and the real
// client libraries (datastore, memcache, user) are unmodified and reach this
// stub through the library's own API-call override seam.
//
// The store is strongly consistent and in memory. Documented limits are
// enforced: 1 MiB per stored entity / datastore call payload, 1 MB per
// memcache value, 500 entities per multi-operation.
package simplatform

import (
	"bytes"
	"context"
	"errors"
	"fmt"
	"net/http"
	"sort"
	"sync"
	"time"

	"github.com/golang/protobuf/proto"

	"google.golang.org/appengine/v2/internal"
	basepb "google.golang.org/appengine/v2/internal/base"
	pb "google.golang.org/appengine/v2/internal/datastore"
	mpb "google.golang.org/appengine/v2/internal/memcache"
	upb "google.golang.org/appengine/v2/internal/user"
)

// Identity is who the platform says the caller of one request is.
type Identity struct {
	UserEmail  string // signed-in end user ("" = not signed in)
	UserAdmin  bool
	OAuthEmail string // OAuth identity ("" = no valid token)
	OAuthAdmin bool
	// Federated: a signed-in user known by a federated identity only (no e-mail)
	Federated string
	// OAuthNoEmail: a valid OAuth token whose account has no e-mail address
	OAuthNoEmail bool
}

// RPC describes one API call, for fault scripts and logs.
type RPC struct {
	Seq     int
	Service string
	Method  string
	Keys    []string // entity keys / memcache keys touched
	Kind    string   // query kind
	ReqID   string
}

type memItem struct {
	value []byte
	flags uint32
}

type Platform struct {
	mu       sync.Mutex
	entities map[string]*pb.EntityProto
	memc     map[string]memItem
	seq      int
	reqSeq   int
	txSeq    int64
	cursors  int

	// Fault, if set, may fail an RPC before it takes effect (return non-nil)
	Fault func(r *RPC) error
	// Latency, if set, is slept (bubble clock) before each RPC.
	Latency func(r *RPC) time.Duration
	// Evict, if set, may make a memcache Get miss.
	Evict func(key string) bool
	// OnRPC observes every RPC after the fault decision.
	OnRPC func(r *RPC, err error)
}

func New() *Platform {
	return &Platform{entities: map[string]*pb.EntityProto{}, memc: map[string]memItem{}}
}

const (
	entityLimit   = 1 << 20
	memcacheLimit = 1000000
	multiOpLimit  = 500
)

// Serve runs the application's registered handler for one request, the way
// the platform does: per-request context, identity headers, module name.
func (p *Platform) Serve(w http.ResponseWriter, r *http.Request, service string, id Identity) {
	p.mu.Lock()
	p.reqSeq++
	reqID := fmt.Sprintf("req-%06d", p.reqSeq)
	p.mu.Unlock()
	for k := range r.Header {
		if len(k) > 12 && (k[:12] == "X-Appengine-" || k[:6] == "X-Sim-") {
			r.Header.Del(k) // the platform strips such headers from external requests
		}
	}
	r.Header.Set("X-Sim-Service", service)
	r.Header.Set("X-AppEngine-Request-Log-Id", reqID)
	if id.UserEmail != "" {
		r.Header.Set("X-AppEngine-User-Email", id.UserEmail)
		r.Header.Set("X-AppEngine-Auth-Domain", "gmail.com")
		r.Header.Set("X-AppEngine-User-Id", "id-"+id.UserEmail)
		if id.UserAdmin {
			r.Header.Set("X-AppEngine-User-Is-Admin", "1")
		}
	}
	if id.Federated != "" {
		r.Header.Set("X-AppEngine-Federated-Identity", id.Federated)
		r.Header.Set("X-AppEngine-Federated-Provider", "https://idp.example/")
		r.Header.Set("X-AppEngine-User-Id", "fed-"+id.Federated)
	}
	ctx := internal.WithCallOverride(r.Context(), func(ctx context.Context, service, method string, in, out proto.Message) error {
		return p.call(ctx, reqID, id, service, method, in, out)
	})
	ctx = internal.WithAppIDOverride(ctx, "s~sim-app")
	internal.HandleHTTP(w, r.WithContext(ctx))
}

func keyString(k *pb.Reference) string {
	var b bytes.Buffer
	for _, e := range k.GetPath().GetElement() {
		fmt.Fprintf(&b, "/%s:", e.GetType())
		if e.Name != nil {
			b.WriteString(e.GetName())
		} else {
			fmt.Fprintf(&b, "#%d", e.GetId())
		}
	}
	return b.String()
}

func apiErr(service string, code int32, detail string) error {
	return &internal.APIError{Service: service, Detail: detail, Code: code}
}

func (p *Platform) call(ctx context.Context, reqID string, id Identity, service, method string, in, out proto.Message) error {
	if err := ctx.Err(); err != nil {
		return err
	}
	rpc := &RPC{Service: service, Method: method, ReqID: reqID}
	switch m := in.(type) {
	case *pb.PutRequest:
		for _, e := range m.Entity {
			rpc.Keys = append(rpc.Keys, keyString(e.Key))
		}
	case *pb.GetRequest:
		for _, k := range m.Key {
			rpc.Keys = append(rpc.Keys, keyString(k))
		}
	case *pb.DeleteRequest:
		for _, k := range m.Key {
			rpc.Keys = append(rpc.Keys, keyString(k))
		}
	case *pb.Query:
		rpc.Kind = m.GetKind()
	case *mpb.MemcacheGetRequest:
		for _, k := range m.Key {
			rpc.Keys = append(rpc.Keys, string(k))
		}
	case *mpb.MemcacheSetRequest:
		for _, it := range m.Item {
			rpc.Keys = append(rpc.Keys, string(it.Key))
		}
	}
	p.mu.Lock()
	p.seq++
	rpc.Seq = p.seq
	lat, fault, on := p.Latency, p.Fault, p.OnRPC
	p.mu.Unlock()
	if lat != nil {
		if d := lat(rpc); d > 0 {
			select {
			case <-time.After(d):
			case <-ctx.Done():
				return ctx.Err()
			}
		}
	}
	var err error
	if fault != nil {
		err = fault(rpc)
	}
	if err == nil {
		err = p.apply(id, service, method, in, out)
	}
	if on != nil {
		on(rpc, err)
	}
	return err
}

func (p *Platform) apply(id Identity, service, method string, in, out proto.Message) error {
	p.mu.Lock()
	defer p.mu.Unlock()
	switch service + "." + method {
	case "user.GetOAuthUser":
		if id.OAuthEmail == "" && !id.OAuthNoEmail {
			return apiErr("user", int32(upb.UserServiceError_OAUTH_INVALID_TOKEN), "no valid OAuth token")
		}
		res := out.(*upb.GetOAuthUserResponse)
		res.Email = proto.String(id.OAuthEmail)
		res.UserId = proto.String("id-" + id.OAuthEmail)
		res.AuthDomain = proto.String("gmail.com")
		res.IsAdmin = proto.Bool(id.OAuthAdmin)
		res.ClientId = proto.String("client")
		return nil
	case "datastore_v3.Put":
		req, res := in.(*pb.PutRequest), out.(*pb.PutResponse)
		if len(req.Entity) > multiOpLimit {
			return apiErr("datastore_v3", int32(pb.Error_BAD_REQUEST), "too many entities in one call")
		}
		if proto.Size(req) > entityLimit {
			return apiErr("datastore_v3", int32(pb.Error_BAD_REQUEST), "request is too large")
		}
		for _, e := range req.Entity {
			if proto.Size(e) > entityLimit {
				return apiErr("datastore_v3", int32(pb.Error_BAD_REQUEST), "entity is too big")
			}
		}
		for _, e := range req.Entity {
			p.entities[keyString(e.Key)] = proto.Clone(e).(*pb.EntityProto)
			res.Key = append(res.Key, e.Key)
		}
		return nil
	case "datastore_v3.Get":
		req, res := in.(*pb.GetRequest), out.(*pb.GetResponse)
		if len(req.Key) > 1000 {
			return apiErr("datastore_v3", int32(pb.Error_BAD_REQUEST), "too many keys in one call")
		}
		for _, k := range req.Key {
			ent := &pb.GetResponse_Entity{}
			if e, ok := p.entities[keyString(k)]; ok {
				ent.Entity = proto.Clone(e).(*pb.EntityProto)
			} else {
				ent.Key = k
			}
			res.Entity = append(res.Entity, ent)
		}
		return nil
	case "datastore_v3.Delete":
		req := in.(*pb.DeleteRequest)
		if len(req.Key) > multiOpLimit {
			return apiErr("datastore_v3", int32(pb.Error_BAD_REQUEST), "too many keys in one call")
		}
		for _, k := range req.Key {
			delete(p.entities, keyString(k))
		}
		return nil
	case "datastore_v3.RunQuery":
		return p.runQuery(in.(*pb.Query), out.(*pb.QueryResult))
	case "datastore_v3.Next":
		res := out.(*pb.QueryResult)
		res.MoreResults = proto.Bool(false)
		return nil
	case "datastore_v3.BeginTransaction":
		p.txSeq++
		tx := out.(*pb.Transaction)
		tx.Handle = proto.Uint64(uint64(p.txSeq))
		tx.App = proto.String("sim-app")
		return nil
	case "datastore_v3.Commit", "datastore_v3.Rollback":
		return nil
	case "datastore_v3.AllocateIds":
		return apiErr("datastore_v3", int32(pb.Error_BAD_REQUEST), "AllocateIds is not provided by the stub")
	case "memcache.Get":
		req, res := in.(*mpb.MemcacheGetRequest), out.(*mpb.MemcacheGetResponse)
		for _, k := range req.Key {
			key := req.GetNameSpace() + "|" + string(k)
			it, ok := p.memc[key]
			if ok && p.Evict != nil && p.Evict(string(k)) {
				delete(p.memc, key)
				ok = false
			}
			if ok {
				res.Item = append(res.Item, &mpb.MemcacheGetResponse_Item{Key: k, Value: append([]byte(nil), it.value...), Flags: proto.Uint32(it.flags)})
			}
		}
		return nil
	case "memcache.Set":
		req, res := in.(*mpb.MemcacheSetRequest), out.(*mpb.MemcacheSetResponse)
		for _, it := range req.Item {
			key := req.GetNameSpace() + "|" + string(it.Key)
			if len(it.Value) > memcacheLimit || len(it.Key) > 250 {
				res.SetStatus = append(res.SetStatus, mpb.MemcacheSetResponse_ERROR)
				continue
			}
			_, exists := p.memc[key]
			switch it.GetSetPolicy() {
			case mpb.MemcacheSetRequest_ADD:
				if exists {
					res.SetStatus = append(res.SetStatus, mpb.MemcacheSetResponse_NOT_STORED)
					continue
				}
			case mpb.MemcacheSetRequest_REPLACE:
				if !exists {
					res.SetStatus = append(res.SetStatus, mpb.MemcacheSetResponse_NOT_STORED)
					continue
				}
			}
			p.memc[key] = memItem{value: append([]byte(nil), it.Value...), flags: it.GetFlags()}
			res.SetStatus = append(res.SetStatus, mpb.MemcacheSetResponse_STORED)
		}
		return nil
	case "memcache.Delete":
		req, res := in.(*mpb.MemcacheDeleteRequest), out.(*mpb.MemcacheDeleteResponse)
		for _, it := range req.Item {
			key := req.GetNameSpace() + "|" + string(it.Key)
			if _, ok := p.memc[key]; ok {
				delete(p.memc, key)
				res.DeleteStatus = append(res.DeleteStatus, mpb.MemcacheDeleteResponse_DELETED)
			} else {
				res.DeleteStatus = append(res.DeleteStatus, mpb.MemcacheDeleteResponse_NOT_FOUND)
			}
		}
		return nil
	}
	return errors.New("simplatform: unsupported API call " + service + "." + method)
}

func propValue(e *pb.EntityProto, name string) (*pb.PropertyValue, bool) {
	for _, pr := range e.Property {
		if pr.GetName() == name {
			return pr.Value, true
		}
	}
	return nil, false
}

// cmp compares two property values of the same type (-1, 0, 1; ok=false if not comparable).
func cmp(a, b *pb.PropertyValue) (int, bool) {
	switch {
	case a.Int64Value != nil && b.Int64Value != nil:
		x, y := a.GetInt64Value(), b.GetInt64Value()
		if x < y {
			return -1, true
		} else if x > y {
			return 1, true
		}
		return 0, true
	case a.BooleanValue != nil && b.BooleanValue != nil:
		x, y := a.GetBooleanValue(), b.GetBooleanValue()
		if x == y {
			return 0, true
		} else if !x {
			return -1, true
		}
		return 1, true
	case a.StringValue != nil && b.StringValue != nil:
		return bytes.Compare([]byte(a.GetStringValue()), []byte(b.GetStringValue())), true
	case a.DoubleValue != nil && b.DoubleValue != nil:
		x, y := a.GetDoubleValue(), b.GetDoubleValue()
		if x < y {
			return -1, true
		} else if x > y {
			return 1, true
		}
		return 0, true
	}
	return 0, false
}

func (p *Platform) runQuery(q *pb.Query, res *pb.QueryResult) error {
	var keys []string
	for k, e := range p.entities {
		path := e.GetKey().GetPath().GetElement()
		if len(path) == 0 || path[len(path)-1].GetType() != q.GetKind() {
			continue
		}
		match := true
		for _, f := range q.Filter {
			if len(f.Property) != 1 {
				return apiErr("datastore_v3", int32(pb.Error_BAD_REQUEST), "unsupported filter")
			}
			fv := f.Property[0]
			// a multi-valued property matches if any of its values does
			any := false
			for _, pr := range e.Property {
				if pr.GetName() != fv.GetName() {
					continue
				}
				c, ok := cmp(pr.Value, fv.Value)
				if !ok {
					continue
				}
				switch f.GetOp() {
				case pb.Query_Filter_EQUAL:
					any = any || c == 0
				case pb.Query_Filter_LESS_THAN:
					any = any || c < 0
				case pb.Query_Filter_LESS_THAN_OR_EQUAL:
					any = any || c <= 0
				case pb.Query_Filter_GREATER_THAN:
					any = any || c > 0
				case pb.Query_Filter_GREATER_THAN_OR_EQUAL:
					any = any || c >= 0
				default:
					return apiErr("datastore_v3", int32(pb.Error_BAD_REQUEST), "unsupported filter operator")
				}
			}
			if !any {
				match = false
				break
			}
		}
		if match {
			keys = append(keys, k)
		}
	}
	sort.Strings(keys)
	if off := int(q.GetOffset()); off > 0 {
		if off > len(keys) {
			off = len(keys)
		}
		keys = keys[off:]
		res.SkippedResults = proto.Int32(int32(off))
	}
	if q.Limit != nil && int(q.GetLimit()) < len(keys) {
		keys = keys[:q.GetLimit()]
	}
	for _, k := range keys {
		e := p.entities[k]
		if q.GetKeysOnly() {
			res.Result = append(res.Result, &pb.EntityProto{Key: e.Key, EntityGroup: e.EntityGroup})
		} else {
			res.Result = append(res.Result, proto.Clone(e).(*pb.EntityProto))
		}
	}
	res.KeysOnly = proto.Bool(q.GetKeysOnly())
	res.MoreResults = proto.Bool(false)
	p.cursors++
	res.Cursor = &pb.Cursor{Cursor: proto.Uint64(uint64(p.cursors)), App: proto.String("sim-app")}
	return nil
}

// Snapshot returns a digest of every stored entity and cache entry, for
// "the store is unchanged" checks.
func (p *Platform) Snapshot() map[string]string {
	p.mu.Lock()
	defer p.mu.Unlock()
	out := map[string]string{}
	for k, e := range p.entities {
		b, _ := proto.Marshal(e)
		out["ds:"+k] = fmt.Sprintf("%d:%x", len(b), fnv(b))
	}
	for k, it := range p.memc {
		out["mc:"+k] = fmt.Sprintf("%d:%x", len(it.value), fnv(it.value))
	}
	return out
}

// EntityKeys lists the keys of stored entities (sorted).
func (p *Platform) EntityKeys() []string {
	p.mu.Lock()
	defer p.mu.Unlock()
	var ks []string
	for k := range p.entities {
		ks = append(ks, k)
	}
	sort.Strings(ks)
	return ks
}

func fnv(b []byte) uint64 {
	h := uint64(14695981039346656037)
	for _, c := range b {
		h = (h ^ uint64(c)) * 1099511628211
	}
	return h
}

var _ = basepb.VoidProto{}
