//go:build race

package sim

import (
	"runtime"
	"unsafe"
)

const RaceEnabled = true

//go:norace
func raceDisable() { runtime.RaceDisable() }

//go:norace
func raceEnable() { runtime.RaceEnable() }

//go:norace
func raceAcquire(p unsafe.Pointer) { runtime.RaceAcquire(p) }

//go:norace
func raceReleaseMerge(p unsafe.Pointer) { runtime.RaceReleaseMerge(p) }
