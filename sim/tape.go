package sim

// Tape is the single source of every choice made in a simulated run.
//
// In generate mode the i-th choice is prng_i mod n, where the PRNG
// (SplitMix64) is seeded from VERIF_SEED. Every value handed out is
// recorded. In replay mode the recorded values are handed out again
// (clamped into range); an exhausted tape yields 0. Value 0 always means
// "the plain thing": oldest enabled event first, no fault, whole buffer.
//
// The tape is only ever consulted from code whose execution order is itself
// a function of earlier tape values, so one tape is one execution.
type Tape struct {
	Seed   uint64
	state  uint64
	replay []int32
	isRep  bool
	pos    int
	Rec    []int32
	Labels []string
}

//go:norace
func NewTape(seed uint64) *Tape {
	return &Tape{Seed: seed, state: seed*0x9E3779B97F4A7C15 + 0xD1B54A32D192ED03}
}

//go:norace
func NewReplayTape(vals []int32) *Tape {
	return &Tape{replay: vals, isRep: true}
}

//go:norace
func (t *Tape) next() uint64 {
	t.state += 0x9E3779B97F4A7C15
	z := t.state
	z = (z ^ (z >> 30)) * 0xBF58476D1CE4E5B9
	z = (z ^ (z >> 27)) * 0x94D049BB133111EB
	return z ^ (z >> 31)
}

// Choice returns a value in [0,n). n<=1 consumes nothing.
//
//go:norace
func (t *Tape) Choice(n int, label string) int {
	if n <= 1 {
		return 0
	}
	var v int
	if t.isRep {
		if t.pos < len(t.replay) {
			v = int(t.replay[t.pos])
			if v < 0 {
				v = 0
			}
			if v >= n {
				v = n - 1
			}
		}
		t.pos++
	} else {
		v = int(t.next() % uint64(n))
	}
	t.Rec = append(t.Rec, int32(v))
	t.Labels = append(t.Labels, label)
	return v
}

// Rare is true with probability num/den; tape value 0 means false.
//
//go:norace
func (t *Tape) Rare(num, den int, label string) bool {
	if num <= 0 {
		return false
	}
	return t.Choice(den, label) >= den-num
}

// Range returns a value in [lo,hi]; tape value 0 means lo.
//
//go:norace
func (t *Tape) Range(lo, hi int, label string) int {
	if hi <= lo {
		return lo
	}
	return lo + t.Choice(hi-lo+1, label)
}

// Pick returns an index chosen by weight; index 0 is the plain choice.
//
//go:norace
func (t *Tape) Pick(label string, weights ...int) int {
	tot := 0
	for _, w := range weights {
		tot += w
	}
	v := t.Choice(tot, label)
	for i, w := range weights {
		if v < w {
			return i
		}
		v -= w
	}
	return len(weights) - 1
}

// Sub returns a small independent PRNG seeded by one tape draw, used to
// expand payload bytes without spending one tape value per byte.
//
//go:norace
func (t *Tape) Sub(label string) *SubRand {
	return &SubRand{s: uint64(t.Choice(1<<20, label))*0x9E3779B97F4A7C15 + 1}
}

type SubRand struct{ s uint64 }

//go:norace
func (r *SubRand) Uint64() uint64 {
	r.s += 0x9E3779B97F4A7C15
	z := r.s
	z = (z ^ (z >> 30)) * 0xBF58476D1CE4E5B9
	z = (z ^ (z >> 27)) * 0x94D049BB133111EB
	return z ^ (z >> 31)
}

//go:norace
func (r *SubRand) Intn(n int) int {
	if n <= 1 {
		return 0
	}
	return int(r.Uint64() % uint64(n))
}

//go:norace
func (r *SubRand) Float64() float64 {
	return float64(r.Uint64()>>11) / (1 << 53)
}

//go:norace
func (r *SubRand) Read(p []byte) (int, error) {
	for i := 0; i < len(p); {
		v := r.Uint64()
		for j := 0; j < 8 && i < len(p); j++ {
			p[i] = byte(v)
			v >>= 8
			i++
		}
	}
	return len(p), nil
}

// Bytes returns n pseudo-random bytes.
//
//go:norace
func (r *SubRand) Bytes(n int) []byte {
	b := make([]byte, n)
	r.Read(b)
	return b
}
