// Package sim is the deterministic simulation kernel: a seeded driver that
// decides, one stimulus at a time, which parked task runs and which network
// event is delivered, over an in-memory network, inside a testing/synctest
// bubble (fake clock + quiescence detection).
//
// Construction rules (see DESIGN.md 2.5): every function that touches kernel
// state is //go:norace and takes the kernel lock inside RaceDisable/RaceEnable
// so that, under -race, the kernel never becomes a synchronisation hub between
// goroutines of the system under test. Causality that really exists (a byte
// received happens after it was sent) is carried by explicit release/acquire
// annotations on the link.
package sim

import (
	"runtime"
	"strconv"
	"sync"
	"testing/synctest"
	"time"
)

// K is the kernel of the current process (one simulated run per process).
var K *Kernel

type Node struct {
	Name string
	dead bool
	sigs []sigReg
}

type gstate struct {
	id     uint64
	ch     chan struct{}
	held   int
	node   *Node
	site   int
	seq    uint64
	driver bool
}

type ExitRec struct {
	Node string
	At   time.Duration
	Seq  uint64
	Code int
	Msg  string
}

type Kernel struct {
	mu    sync.Mutex
	Tape  *Tape
	epoch time.Time
	seq   uint64
	steps int

	gs     [1024][]*gstate
	parked []*gstate
	events []*event
	wake   chan struct{}

	nodes []*Node
	Exits []ExitRec

	listeners   []*Listener
	conns       []*Conn
	connOrd     []addrCount
	nextPort    int
	Faults      []*NetFault
	DialLog     []DialRec
	DumpNet     func(conn int, to string, dir int, data []byte)
	LatencyMenu []time.Duration // menu from which per-connection latency is drawn (index 0 = plain)
	SegmentPct  int             // probability (percent) that a delivery is split
	SendBuf     int             // per-direction buffer capacity

	ChaosMult int // choice = Choice(n*ChaosMult); >= n means FIFO
	MaxSteps  int
	Horizon   time.Duration

	active          bool
	stopped         bool
	StepCap         bool
	hash            uint64
	schedHash       uint64
	traceOn         bool
	trace           []byte
	stats           []statCount
	NontrivialSteps int
}

//go:norace
func NewKernel(t *Tape) *Kernel {
	k := &Kernel{
		Tape:        t,
		wake:        make(chan struct{}, 1),
		nextPort:    40000,
		ChaosMult:   2,
		MaxSteps:    200000,
		Horizon:     10 * time.Minute,
		SendBuf:     64 << 10,
		hash:        14695981039346656037,
		schedHash:   14695981039346656037,
		LatencyMenu: []time.Duration{0},
	}
	k.epoch = time.Now()
	K = k
	return k
}

//go:norace
func (k *Kernel) SetTrace(on bool) { k.traceOn = on }

//go:norace
func (k *Kernel) enter() {
	raceDisable()
	k.mu.Lock()
}

//go:norace
func (k *Kernel) leave() {
	k.mu.Unlock()
	raceEnable()
}

// Now is simulated time since the start of the run.
//
//go:norace
func (k *Kernel) Now() time.Duration { return time.Since(k.epoch) }

// Seq returns a fresh global event sequence number.
//
//go:norace
func (k *Kernel) Seq() uint64 {
	k.enter()
	k.seq++
	s := k.seq
	k.leave()
	return s
}

//go:norace
func (k *Kernel) Count(name string) {
	k.enter()
	k.countLocked(name)
	k.leave()
}

type statCount struct {
	name string
	n    int
}

type addrCount struct {
	addr string
	n    int
}

//go:norace
func (k *Kernel) countLocked(name string) {
	for i := range k.stats {
		if k.stats[i].name == name {
			k.stats[i].n++
			return
		}
	}
	k.stats = append(k.stats, statCount{name, 1})
}

// Stats returns the counters as a map (call after the run).
//
//go:norace
func (k *Kernel) Stats() map[string]int {
	k.enter()
	cp := make([]statCount, len(k.stats))
	for i := range k.stats {
		cp[i] = k.stats[i]
	}
	k.leave()
	m := map[string]int{}
	for _, s := range cp {
		m[s.name] = s.n
	}
	return m
}

//go:norace
func (k *Kernel) findG(id uint64) *gstate {
	for _, g := range k.gs[id&1023] {
		if g.id == id {
			return g
		}
	}
	return nil
}

// logLocked appends one record to the event log hash (and trace).
//
//go:norace
func (k *Kernel) logLocked(kind string, a, b int64, s string) {
	h := k.hash
	for i := 0; i < len(kind); i++ {
		h = (h ^ uint64(kind[i])) * 1099511628211
	}
	for _, v := range [3]uint64{uint64(a), uint64(b), uint64(time.Since(k.epoch))} {
		for i := 0; i < 8; i++ {
			h = (h ^ (v & 0xff)) * 1099511628211
			v >>= 8
		}
	}
	for i := 0; i < len(s); i++ {
		h = (h ^ uint64(s[i])) * 1099511628211
	}
	k.hash = h
	if k.traceOn {
		k.trace = strconv.AppendInt(k.trace, int64(time.Since(k.epoch)/time.Microsecond), 10)
		k.trace = appendStr(k.trace, "us ")
		k.trace = appendStr(k.trace, kind)
		k.trace = append(k.trace, ' ')
		k.trace = strconv.AppendInt(k.trace, a, 10)
		k.trace = append(k.trace, ' ')
		k.trace = strconv.AppendInt(k.trace, b, 10)
		k.trace = append(k.trace, ' ')
		k.trace = appendStr(k.trace, s)
		k.trace = append(k.trace, '\n')
	}
}

// Log lets harness code add a record to the event log.
//
//go:norace
func (k *Kernel) Log(kind string, a, b int64, s string) {
	k.enter()
	k.logLocked(kind, a, b, s)
	k.leave()
}

//go:norace
func (k *Kernel) Hash() uint64 { return k.hash }

//go:norace
func (k *Kernel) SchedHash() uint64 { return k.schedHash }

//go:norace
func (k *Kernel) Trace() []byte { return k.trace }

//go:norace
func (k *Kernel) Steps() int { return k.steps }

//go:norace
func (k *Kernel) nodeLocked(name string) *Node {
	for _, n := range k.nodes {
		if n.Name == name && !n.dead {
			return n
		}
	}
	// (a dead node of that name stays dead: a program started again under the same
	// name is a new incarnation with nothing but the name in common)
	n := &Node{Name: name}
	k.nodes = append(k.nodes, n)
	return n
}

// gLocked returns the state of goroutine id, resolving its node through the
// runtime's parent table the first time.
//
//go:norace
func (k *Kernel) gLocked(id uint64) *gstate {
	g := k.findG(id)
	if g != nil {
		return g
	}
	g = &gstate{id: id, ch: make(chan struct{})}
	k.gs[id&1023] = append(k.gs[id&1023], g)
	p := id
	for i := 0; i < 64; i++ {
		p = runtime.SimParentOf(p)
		if p == 0 {
			break
		}
		if pg := k.findG(p); pg != nil && pg.node != nil {
			g.node = pg.node
			break
		}
	}
	return g
}

// Spawn starts fn as a goroutine belonging to host.
//
//go:norace
func (k *Kernel) Spawn(host string, fn func()) {
	k.enter()
	n := k.nodeLocked(host)
	k.leave()
	go k.spawned(n, fn)
}

//go:norace
func (k *Kernel) spawned(n *Node, fn func()) {
	id := runtime.SimGoid()
	k.enter()
	g := k.gLocked(id)
	g.node = n
	k.leave()
	fn()
}

// CurrentNode names the host the calling goroutine belongs to ("" if unknown).
//
//go:norace
func (k *Kernel) CurrentNode() string {
	id := runtime.SimGoid()
	k.enter()
	g := k.gLocked(id)
	name := ""
	if g.node != nil {
		name = g.node.Name
	}
	k.leave()
	return name
}

//go:norace
func (k *Kernel) poke() {
	select {
	case k.wake <- struct{}{}:
	default:
	}
}

// Y is a preemption point inserted into the repository's code. The calling
// goroutine parks until the driver releases it. It never parks while holding
// a sync.Mutex (a goroutine blocked on a mutex is not durably blocked).
//
//go:norace
func Y(site int) {
	k := K
	if k == nil || !k.active {
		return
	}
	id := runtime.SimGoid()
	raceDisable()
	k.mu.Lock()
	g := k.gLocked(id)
	if g.node != nil && g.node.dead {
		k.mu.Unlock()
		raceEnable()
		hangForever()
	}
	if g.held > 0 || g.driver || k.stopped {
		k.mu.Unlock()
		raceEnable()
		return
	}
	g.site = site
	k.seq++
	g.seq = k.seq
	k.parked = append(k.parked, g)
	k.mu.Unlock()
	k.poke()
	<-g.ch
	raceEnable()
}

// Held tracks sync.Mutex ownership of the calling goroutine.
//
//go:norace
func Held(d int) {
	k := K
	if k == nil || !k.active {
		return
	}
	id := runtime.SimGoid()
	k.enter()
	g := k.gLocked(id)
	g.held += d
	if g.held < 0 {
		g.held = 0
	}
	k.leave()
}

// Stop ends the run at the next quiescent point.
//
//go:norace
func (k *Kernel) Stop() {
	k.enter()
	k.stopped = true
	k.leave()
	k.poke()
}

//go:norace
func (k *Kernel) Stopped() bool {
	k.enter()
	s := k.stopped
	k.leave()
	return s
}

const (
	evTask = iota
	evDial
	evLink
)

type event struct {
	kind int
	seq  uint64
	due  time.Duration
	g    *gstate
	dial *dialReq
	link *link
}

//go:norace
func (k *Kernel) addEventLocked(e *event) {
	k.seq++
	e.seq = k.seq
	k.events = append(k.events, e)
}

// Run is the driver loop; it must be called on the bubble's root goroutine.
// Exactly one stimulus is injected between two quiescent points.
//
//go:norace
func (k *Kernel) Run() {
	raceDisable()
	id := runtime.SimGoid()
	k.mu.Lock()
	k.gLocked(id).driver = true
	k.active = true
	k.mu.Unlock()
	var enabled []*event
	for {
		synctest.Wait()
		k.mu.Lock()
		if k.stopped {
			k.mu.Unlock()
			break
		}
		now := time.Since(k.epoch)
		if now >= k.Horizon {
			k.mu.Unlock()
			break
		}
		if k.steps >= k.MaxSteps {
			k.StepCap = true
			k.mu.Unlock()
			break
		}
		enabled = enabled[:0]
		for _, g := range k.parked {
			enabled = append(enabled, &event{kind: evTask, seq: g.seq, g: g})
		}
		var nextDue time.Duration = -1
		for _, e := range k.events {
			if e.due <= now {
				enabled = append(enabled, e)
			} else if nextDue < 0 || e.due < nextDue {
				nextDue = e.due
			}
		}
		if len(enabled) > 0 {
			// canonical order: by enabling sequence number
			for i := 1; i < len(enabled); i++ {
				for j := i; j > 0 && enabled[j].seq < enabled[j-1].seq; j-- {
					enabled[j], enabled[j-1] = enabled[j-1], enabled[j]
				}
			}
			idx := 0
			if len(enabled) > 1 {
				r := k.Tape.Choice(len(enabled)*k.ChaosMult, "sched")
				if r < len(enabled) {
					idx = r
				}
				k.NontrivialSteps++
			}
			e := enabled[idx]
			k.steps++
			k.fireLocked(e)
			k.mu.Unlock()
			continue
		}
		k.mu.Unlock()
		d := k.Horizon - now
		if nextDue >= 0 && nextDue-now < d {
			d = nextDue - now
		}
		if d <= 0 {
			d = 1
		}
		tm := time.NewTimer(d)
		select {
		case <-tm.C:
		case <-k.wake:
			tm.Stop()
		}
	}
	k.mu.Lock()
	k.active = false
	k.stopped = true
	// release everything still parked so that nothing depends on the driver any more
	parked := k.parked
	k.parked = nil
	k.mu.Unlock()
	_ = parked
	raceEnable()
}

//go:norace
func (k *Kernel) schedMix(a, b uint64) {
	h := k.schedHash
	for _, v := range [2]uint64{a, b} {
		for i := 0; i < 8; i++ {
			h = (h ^ (v & 0xff)) * 1099511628211
			v >>= 8
		}
	}
	k.schedHash = h
}

//go:norace
func (k *Kernel) fireLocked(e *event) {
	switch e.kind {
	case evTask:
		for i, g := range k.parked {
			if g == e.g {
				for j := i; j+1 < len(k.parked); j++ {
					k.parked[j] = k.parked[j+1]
				}
				k.parked = k.parked[:len(k.parked)-1]
				break
			}
		}
		k.logLocked("T", int64(e.g.site), 0, "")
		k.schedMix(1, uint64(e.g.site))
		// the task is blocked in <-g.ch; this completes immediately
		k.mu.Unlock()
		e.g.ch <- struct{}{}
		k.mu.Lock()
	case evDial:
		k.removeEventLocked(e)
		k.schedMix(2, 0)
		k.fireDialLocked(e.dial)
	case evLink:
		k.removeEventLocked(e)
		k.schedMix(3, uint64(e.link.c.id)*2+uint64(e.link.dir))
		k.fireLinkLocked(e.link)
	}
}

//go:norace
func (k *Kernel) removeEventLocked(e *event) {
	for i, x := range k.events {
		if x == e {
			for j := i; j+1 < len(k.events); j++ {
				k.events[j] = k.events[j+1]
			}
			k.events = k.events[:len(k.events)-1]
			return
		}
	}
}

// ---- process-level stand-ins -------------------------------------------

// exitNode records that the calling goroutine's node exited and kills the node.
//
//go:norace
func (k *Kernel) exitNode(code int, msg string) {
	id := runtime.SimGoid()
	k.enter()
	g := k.gLocked(id)
	name := "?"
	if g.node != nil {
		name = g.node.Name
		if !g.node.dead {
			g.node.dead = true
			k.killNodeLocked(g.node)
		}
	}
	k.seq++
	k.Exits = append(k.Exits, ExitRec{Node: name, At: time.Since(k.epoch), Seq: k.seq, Code: code, Msg: msg})
	k.logLocked("X", int64(code), 0, name)
	k.leave()
	k.poke()
	hangForever()
}

// checkDead terminates the calling goroutine if its node has exited.
//
//go:norace
func (k *Kernel) checkDeadLocked(g *gstate) bool {
	return g.node != nil && g.node.dead
}

//go:norace
func appendStr(b []byte, s string) []byte {
	for i := 0; i < len(s); i++ {
		b = append(b, s[i])
	}
	return b
}

// hangForever stops a goroutine of a node that has exited, the way a dead
// process stops: nothing more runs in it, in particular no deferred functions
// (runtime.Goexit would run them, which the real exit never does).
//
//go:norace
func hangForever() {
	select {}
}
