//go:build !race

package sim

import "unsafe"

const RaceEnabled = false

func raceDisable()                      {}
func raceEnable()                       {}
func raceAcquire(p unsafe.Pointer)      {}
func raceReleaseMerge(p unsafe.Pointer) {}
