package sim

import (
	"context"
	"errors"
	"io"
	"net"
	"os"
	"runtime"
	"strconv"
	"strings"
	"sync"
	"syscall"
	"time"
	"unsafe"
)

// SimNet: the only transport. A connection is two directed links. Every SYN,
// data segment, FIN and RST is an event the driver fires.

type Addr struct{ S string }

func (a Addr) Network() string { return "tcp" }
func (a Addr) String() string  { return a.S }

const (
	FaultReset     = iota + 1 // both endpoints see a reset when the direction reaches AtByte
	FaultStall                // the direction is delayed by Dur when it reaches AtByte
	FaultBlackhole            // the direction stops delivering at AtByte (until Dur elapses, 0 = forever)
	FaultRefuse               // the dial is refused
	FaultDialHang             // the dial never completes (until Dur elapses, then refused)
)

// NetFault is a scripted network fault. ToAddr/ConnOrd select the connection
// (ConnOrd counts connections accepted at ToAddr from 0; -1 = any).
type NetFault struct {
	ToAddr  string
	ConnOrd int
	Dir     int // 0 dialer->listener, 1 listener->dialer
	AtByte  int64
	Kind    int
	Dur     time.Duration
	Fired   int
	Once    bool
}

type chunk struct {
	data []byte
	fin  bool
	rst  bool
	due  time.Duration
}

// link is one direction of a connection, towards endpoint c.
type link struct {
	c         *Conn // receiving endpoint
	dir       int
	queue     []chunk // written, not yet delivered
	recv      [][]byte
	recvN     int
	bytes     int // queue + recv
	cap       int
	ev        *event
	finRecv   bool
	delivered int64
	holdUntil time.Duration
	blackhole bool
	rcond     *sync.Cond
	wcond     *sync.Cond
	syncvar   int64
}

type Conn struct {
	id       int
	k        *Kernel
	node     *Node
	local    Addr
	remote   Addr
	in       *link // towards me
	out      *link // towards peer
	peer     *Conn
	closed   bool
	wclosed  bool
	reset    bool
	rdl      time.Time
	wdl      time.Time
	rtimer   *time.Timer
	wtimer   *time.Timer
	lat      time.Duration
	toAddr   string
	ord      int
	Tag      string
	dialSync *int64
	linger0  bool
}

type DialRec struct{ From, Raw, Resolved string }

type Listener struct {
	k       *Kernel
	node    *Node
	addr    string
	queue   []*Conn
	cond    *sync.Cond
	closed  bool
	syncvar int64
}

type dialReq struct {
	from      *Node
	addr      string
	done      bool
	syncvar   int64
	conn      *Conn
	err       error
	cond      *sync.Cond
	cancelled bool
}

type timeoutError struct{}

func (timeoutError) Error() string   { return "i/o timeout" }
func (timeoutError) Timeout() bool   { return true }
func (timeoutError) Temporary() bool { return true }

var errTimeout error = &net.OpError{Op: "read", Net: "tcp", Err: os.ErrDeadlineExceeded}

//go:norace
func opErr(op string, err error) error {
	return &net.OpError{Op: op, Net: "tcp", Err: err}
}

//go:norace
func (k *Kernel) resolve(from *Node, addr string) string {
	host, port, err := net.SplitHostPort(addr)
	if err != nil {
		return addr
	}
	if host == "" || host == "localhost" || host == "127.0.0.1" || host == "::1" || host == "0.0.0.0" {
		if from != nil {
			host = from.Name
		} else {
			host = "?"
		}
	}
	return host + ":" + port
}

//go:norace
func (k *Kernel) findListenerLocked(key string) *Listener {
	var found *Listener
	for _, l := range k.listeners {
		if l.addr == key {
			found = l
		}
	}
	return found
}

//go:norace
func (k *Kernel) ordLocked(addr string, inc int) int {
	for i := range k.connOrd {
		if k.connOrd[i].addr == addr {
			v := k.connOrd[i].n
			k.connOrd[i].n += inc
			return v
		}
	}
	k.connOrd = append(k.connOrd, addrCount{addr, inc})
	return 0
}

// Listen registers a listener for the calling goroutine's node.
//
//go:norace
func (k *Kernel) Listen(network, addr string) (net.Listener, error) {
	id := runtime.SimGoid()
	k.enter()
	g := k.gLocked(id)
	if k.checkDeadLocked(g) {
		k.leave()
		hangForever()
	}
	host, port, err := net.SplitHostPort(addr)
	if err != nil {
		k.leave()
		return nil, opErr("listen", err)
	}
	if port == "0" || port == "" {
		k.nextPort++
		port = strconv.Itoa(k.nextPort)
	}
	if host == "" || host == "localhost" || host == "0.0.0.0" || host == "127.0.0.1" {
		if g.node != nil {
			host = g.node.Name
		} else {
			host = "?"
		}
	}
	key := host + ":" + port
	if l := k.findListenerLocked(key); l != nil && !l.closed {
		k.leave()
		return nil, opErr("listen", syscall.EADDRINUSE)
	}
	l := &Listener{k: k, node: g.node, addr: key}
	l.cond = sync.NewCond(&k.mu)
	k.listeners = append(k.listeners, l)
	k.logLocked("L", 0, 0, key)
	k.leave()
	return l, nil
}

//go:norace
func (l *Listener) Accept() (net.Conn, error) {
	k := l.k
	k.enter()
	for len(l.queue) == 0 && !l.closed {
		l.cond.Wait()
	}
	if l.node != nil && l.node.dead {
		// the program is gone: nothing of it runs any further
		k.leave()
		hangForever()
	}
	if l.closed {
		k.leave()
		return nil, opErr("accept", net.ErrClosed)
	}
	c := l.queue[0]
	l.queue = l.queue[1:]
	k.leave()
	if c.dialSync != nil {
		raceAcquire(unsafe.Pointer(c.dialSync))
	}
	return c, nil
}

//go:norace
func (l *Listener) Close() error {
	k := l.k
	k.enter()
	l.closed = true
	l.cond.Broadcast()
	k.leave()
	return nil
}

func (l *Listener) Addr() net.Addr { return Addr{l.addr} }

// Dial connects the calling goroutine's node to addr. The SYN is an event.
//
//go:norace
func (k *Kernel) DialContext(ctx context.Context, network, addr string) (net.Conn, error) {
	id := runtime.SimGoid()
	k.enter()
	g := k.gLocked(id)
	if k.checkDeadLocked(g) {
		k.leave()
		hangForever()
	}
	if err := ctx.Err(); err != nil {
		k.leave()
		return nil, opErr("dial", err)
	}
	d := &dialReq{from: g.node, addr: k.resolve(g.node, addr)}
	d.cond = sync.NewCond(&k.mu)
	fromName := "?"
	if g.node != nil {
		fromName = g.node.Name
	}
	k.DialLog = append(k.DialLog, DialRec{From: fromName, Raw: addr, Resolved: d.addr})
	k.leave()
	raceReleaseMerge(unsafe.Pointer(&d.syncvar))
	k.enter()
	k.addEventLocked(&event{kind: evDial, due: time.Since(k.epoch), dial: d})
	var stop func() bool
	if ctx.Done() != nil {
		stop = context.AfterFunc(ctx, d.cancel)
	}
	k.leave()
	k.poke()
	k.enter()
	for !d.done {
		d.cond.Wait()
	}
	k.leave()
	if stop != nil {
		stop()
	}
	if d.err != nil {
		return nil, d.err
	}
	raceAcquire(unsafe.Pointer(&d.conn.in.syncvar))
	return d.conn, nil
}

//go:norace
func (d *dialReq) cancel() {
	k := K
	k.enter()
	if !d.done {
		d.done = true
		d.cancelled = true
		d.err = opErr("dial", context.Canceled)
		d.cond.Broadcast()
	}
	k.leave()
}

//go:norace
func (k *Kernel) Dial(network, addr string) (net.Conn, error) {
	return k.DialContext(context.Background(), network, addr)
}

//go:norace
func (k *Kernel) matchFaultLocked(to string, ord int, dir int, kinds ...int) *NetFault {
	for _, f := range k.Faults {
		if f.ToAddr != "" && f.ToAddr != to {
			continue
		}
		if f.ConnOrd >= 0 && f.ConnOrd != ord {
			continue
		}
		if f.Once && f.Fired > 0 {
			continue
		}
		for _, kd := range kinds {
			if f.Kind == kd && (kd == FaultRefuse || kd == FaultDialHang || f.Dir == dir) {
				return f
			}
		}
	}
	return nil
}

//go:norace
func (k *Kernel) fireDialLocked(d *dialReq) {
	if d.done {
		return
	}
	ord := k.ordLocked(d.addr, 0)
	if f := k.matchFaultLocked(d.addr, ord, 0, FaultRefuse, FaultDialHang); f != nil {
		k.ordLocked(d.addr, 1)
		f.Fired++
		if f.Kind == FaultRefuse {
			k.countLocked("fault.dial_refused")
			k.logLocked("DR", int64(ord), 0, d.addr)
			d.done = true
			d.err = opErr("dial", syscall.ECONNREFUSED)
			d.cond.Broadcast()
			return
		}
		k.countLocked("fault.dial_hang")
		k.logLocked("DH", int64(ord), 0, d.addr)
		if f.Dur > 0 {
			d.err = opErr("dial", syscall.ETIMEDOUT)
			time.AfterFunc(f.Dur, d.timeout)
		}
		return
	}
	l := k.findListenerLocked(d.addr)
	if l == nil || l.closed || (l.node != nil && l.node.dead) {
		k.countLocked("net.dial_no_listener")
		k.logLocked("DN", 0, 0, d.addr)
		d.done = true
		d.err = opErr("dial", syscall.ECONNREFUSED)
		d.cond.Broadcast()
		return
	}
	k.ordLocked(d.addr, 1)
	lat := k.LatencyMenu[0]
	if len(k.LatencyMenu) > 1 {
		lat = k.LatencyMenu[k.Tape.Choice(len(k.LatencyMenu), "latency")]
	}
	idn := len(k.conns)
	k.nextPort++
	ca := &Conn{id: idn, k: k, node: d.from, remote: Addr{d.addr}, lat: lat, toAddr: d.addr, ord: ord}
	from := "?"
	if d.from != nil {
		from = d.from.Name
	}
	ca.local = Addr{from + ":" + strconv.Itoa(k.nextPort)}
	cb := &Conn{id: idn + 1, k: k, node: l.node, local: Addr{d.addr}, remote: ca.local, lat: lat, toAddr: d.addr, ord: ord}
	ca.peer, cb.peer = cb, ca
	la := &link{c: ca, dir: 1, cap: k.SendBuf}
	lb := &link{c: cb, dir: 0, cap: k.SendBuf}
	for _, x := range []*link{la, lb} {
		x.rcond = sync.NewCond(&k.mu)
		x.wcond = sync.NewCond(&k.mu)
	}
	ca.in, ca.out = la, lb
	cb.in, cb.out = lb, la
	k.conns = append(k.conns, ca, cb)
	k.countLocked("net.conns")
	k.logLocked("DC", int64(idn), int64(lat), d.addr)
	cb.dialSync = &d.syncvar
	l.queue = append(l.queue, cb)
	l.cond.Signal()
	d.conn = ca
	d.done = true
	d.cond.Broadcast()
}

//go:norace
func (d *dialReq) timeout() {
	k := K
	k.enter()
	if !d.done {
		d.done = true
		d.cond.Broadcast()
	}
	k.leave()
}

// ---- Conn --------------------------------------------------------------

func (c *Conn) LocalAddr() net.Addr  { return c.local }
func (c *Conn) RemoteAddr() net.Addr { return c.remote }

//go:norace
func (c *Conn) ID() int { return c.id }

//go:norace
func (c *Conn) deadNode() bool { return c.node != nil && c.node.dead }

//go:norace
func (c *Conn) Read(p []byte) (int, error) {
	k := c.k
	k.enter()
	l := c.in
	for {
		if c.deadNode() {
			k.leave()
			hangForever()
		}
		if c.closed {
			k.leave()
			return 0, opErr("read", net.ErrClosed)
		}
		if c.reset {
			k.leave()
			raceAcquire(unsafe.Pointer(&l.syncvar))
			return 0, opErr("read", syscall.ECONNRESET)
		}
		if len(p) == 0 {
			k.leave()
			return 0, nil
		}
		if l.recvN > 0 {
			// take ownership of up to len(p) bytes of delivered chunks; the
			// copy happens after the acquire so that it is ordered after the
			// writer's copy into the chunk
			var parts [][]byte
			n := 0
			for n < len(p) && len(l.recv) > 0 {
				c := l.recv[0]
				m := len(c)
				if m > len(p)-n {
					m = len(p) - n
				}
				parts = append(parts, c[:m])
				n += m
				if m == len(c) {
					l.recv = l.recv[1:]
				} else {
					l.recv[0] = c[m:]
				}
			}
			l.recvN -= n
			l.bytes -= n
			l.wcond.Broadcast()
			k.leave()
			raceAcquire(unsafe.Pointer(&l.syncvar))
			off := 0
			for _, part := range parts {
				off += copy(p[off:], part)
			}
			return n, nil
		}
		if l.finRecv {
			k.leave()
			raceAcquire(unsafe.Pointer(&l.syncvar))
			return 0, io.EOF
		}
		if !c.rdl.IsZero() && !time.Now().Before(c.rdl) {
			k.leave()
			return 0, opErr("read", os.ErrDeadlineExceeded)
		}
		l.rcond.Wait()
	}
}

//go:norace
func (c *Conn) Write(p []byte) (int, error) {
	k := c.k
	raceReleaseMerge(unsafe.Pointer(&c.out.syncvar))
	k.enter()
	l := c.out
	n := 0
	for {
		if c.deadNode() {
			k.leave()
			hangForever()
		}
		if c.closed || c.wclosed {
			k.leave()
			return n, opErr("write", net.ErrClosed)
		}
		if c.reset {
			k.leave()
			return n, opErr("write", syscall.ECONNRESET)
		}
		if n == len(p) {
			k.leave()
			return n, nil
		}
		if !c.wdl.IsZero() && !time.Now().Before(c.wdl) {
			k.leave()
			return n, opErr("write", os.ErrDeadlineExceeded)
		}
		space := l.cap - l.bytes
		if space <= 0 {
			l.wcond.Wait()
			continue
		}
		m := len(p) - n
		if m > space {
			m = space
		}
		buf := make([]byte, m)
		copy(buf, p[n:n+m])
		n += m
		k.enqueueLocked(l, chunk{data: buf})
		// the bytes just queued happen-before whoever reads them
		k.leave()
		raceReleaseMerge(unsafe.Pointer(&l.syncvar))
		k.enter()
	}
}

//go:norace
func (k *Kernel) enqueueLocked(l *link, ch chunk) {
	ch.due = time.Since(k.epoch) + l.c.lat
	l.queue = append(l.queue, ch)
	l.bytes += len(ch.data)
	k.armLocked(l)
	k.poke()
}

// armLocked makes sure the head of the link's queue has a delivery event.
//
//go:norace
func (k *Kernel) armLocked(l *link) {
	if l.ev != nil || len(l.queue) == 0 || l.blackhole {
		return
	}
	due := l.queue[0].due
	if l.holdUntil > due {
		due = l.holdUntil
	}
	l.ev = &event{kind: evLink, due: due, link: l}
	k.addEventLocked(l.ev)
}

// fireLinkLocked delivers (part of) the head chunk of a link.
//
//go:norace
func (k *Kernel) fireLinkLocked(l *link) {
	l.ev = nil
	if len(l.queue) == 0 {
		return
	}
	c := l.c
	head := &l.queue[0]
	if head.rst {
		l.queue = nil
		l.recv = nil
		l.bytes -= l.recvN
		l.recvN = 0
		c.reset = true
		k.logLocked("RS", int64(c.id), 0, "")
		l.rcond.Broadcast()
		c.out.wcond.Broadcast()
		return
	}
	if head.fin {
		l.queue = l.queue[1:]
		l.finRecv = true
		k.logLocked("FN", int64(c.id), 0, "")
		l.rcond.Broadcast()
		k.armLocked(l)
		return
	}
	n := len(head.data)
	// scripted faults at a byte offset of this direction
	if f := k.matchFaultLocked(c.toAddr, c.ord, l.dir, FaultReset, FaultStall, FaultBlackhole); f != nil && f.Fired == 0 {
		if f.AtByte <= l.delivered {
			f.Fired++
			switch f.Kind {
			case FaultReset:
				k.countLocked("fault.reset")
				k.logLocked("FR", int64(c.id), l.delivered, "")
				k.resetBothLocked(c)
				return
			case FaultStall:
				k.countLocked("fault.stall")
				k.logLocked("FS", int64(c.id), l.delivered, "")
				l.holdUntil = time.Since(k.epoch) + f.Dur
				k.armLocked(l)
				return
			case FaultBlackhole:
				k.countLocked("fault.blackhole")
				k.logLocked("FB", int64(c.id), l.delivered, "")
				if f.Dur > 0 {
					l.holdUntil = time.Since(k.epoch) + f.Dur
					k.armLocked(l)
				} else {
					l.blackhole = true
				}
				return
			}
		} else if f.AtByte < l.delivered+int64(n) {
			n = int(f.AtByte - l.delivered)
		}
	}
	if n > 1 && k.SegmentPct > 0 {
		if k.Tape.Rare(k.SegmentPct, 100, "segment?") {
			switch k.Tape.Pick("segkind", 2, 1, 1) {
			case 0:
				n = 1 + k.Tape.Choice(n, "seglen")
				if n > len(head.data) {
					n = len(head.data)
				}
			case 1:
				n = 1
			case 2:
				n = (n + 1) / 2
			}
			k.countLocked("net.segmented")
		}
	}
	if c.closed {
		// data for an endpoint that is gone: the peer sees a reset
		k.logLocked("RC", int64(c.id), int64(n), "")
		k.countLocked("net.rst_on_closed")
		l.bytes -= len(head.data)
		l.queue = l.queue[1:]
		if !c.peer.reset {
			c.peer.reset = true
			c.peer.in.rcond.Broadcast()
			c.peer.out.wcond.Broadcast()
			l.wcond.Broadcast()
		}
		k.armLocked(l)
		return
	}
	if n == len(head.data) {
		l.recv = append(l.recv, head.data)
		l.queue = l.queue[1:]
	} else {
		l.recv = append(l.recv, head.data[:n:n])
		head.data = head.data[n:]
	}
	if k.DumpNet != nil {
		k.DumpNet(c.id, c.toAddr, l.dir, l.recv[len(l.recv)-1])
	}
	l.recvN += n
	l.delivered += int64(n)
	k.logLocked("DD", int64(c.id), int64(n), "")
	l.rcond.Broadcast()
	k.armLocked(l)
}

//go:norace
func (k *Kernel) resetBothLocked(c *Conn) {
	for _, x := range []*Conn{c, c.peer} {
		x.reset = true
		x.in.queue = nil
		x.in.bytes -= x.in.recvN
		x.in.recv = nil
		x.in.recvN = 0
		x.in.rcond.Broadcast()
		x.in.wcond.Broadcast()
	}
}

// DebugCloseStack, if set, is called on every close (debugging aid).
var DebugCloseStack func(id int)

//go:norace
func (c *Conn) closeLocked() {
	k := c.k
	if c.closed {
		return
	}
	c.closed = true
	k.logLocked("CL", int64(c.id), 0, "")
	if DebugCloseStack != nil {
		DebugCloseStack(c.id)
	}
	if !c.reset && c.linger0 {
		// abortive close (also after a half-close): whatever has not been delivered
		// yet - data and a pending FIN - is dropped, the peer is reset
		c.wclosed = true
		k.countLocked("net.close_linger0_rst")
		out := c.out
		n := 0
		for i := 0; i < len(out.queue); i++ {
			ch := out.queue[i]
			if !ch.rst {
				out.bytes -= len(ch.data)
				continue
			}
			out.queue[n] = ch
			n++
		}
		out.queue = out.queue[:n]
		out.wcond.Broadcast()
		k.enqueueLocked(c.out, chunk{rst: true})
	}
	if !c.wclosed && !c.reset {
		c.wclosed = true
		if c.in.recvN > 0 {
			// closing with unread data: the peer gets a reset, as with TCP
			k.countLocked("net.close_unread_rst")
			k.enqueueLocked(c.out, chunk{rst: true})
		} else {
			k.enqueueLocked(c.out, chunk{fin: true})
		}
	}
	c.in.bytes -= c.in.recvN
	c.in.recv = nil
	c.in.recvN = 0
	c.in.rcond.Broadcast()
	c.in.wcond.Broadcast()
	c.out.wcond.Broadcast()
	if c.rtimer != nil {
		c.rtimer.Stop()
	}
	if c.wtimer != nil {
		c.wtimer.Stop()
	}
}

//go:norace
func (c *Conn) Close() error {
	k := c.k
	raceReleaseMerge(unsafe.Pointer(&c.out.syncvar))
	k.enter()
	if c.closed {
		k.leave()
		return opErr("close", net.ErrClosed)
	}
	c.closeLocked()
	k.leave()
	return nil
}

// CloseWrite half-closes the connection (FIN after the data already written).
//
//go:norace
func (c *Conn) CloseWrite() error {
	k := c.k
	raceReleaseMerge(unsafe.Pointer(&c.out.syncvar))
	k.enter()
	if c.closed || c.wclosed {
		k.leave()
		return opErr("close", net.ErrClosed)
	}
	c.wclosed = true
	if !c.reset {
		k.enqueueLocked(c.out, chunk{fin: true})
	}
	k.leave()
	return nil
}

// SetLinger with sec == 0 makes Close abortive, as for a TCP socket: whatever
// has been written but not yet delivered to the peer is discarded and the peer
// is reset. Other values keep the default (close in the background, data first).
//
//go:norace
func (c *Conn) SetLinger(sec int) error {
	k := c.k
	k.enter()
	c.linger0 = sec == 0
	k.leave()
	return nil
}

// The remaining TCP-specific knobs have no effect on the model.
func (c *Conn) SetNoDelay(bool) error                  { return nil }
func (c *Conn) SetKeepAlive(bool) error                { return nil }
func (c *Conn) SetKeepAlivePeriod(time.Duration) error { return nil }
func (c *Conn) SetReadBuffer(int) error                { return nil }
func (c *Conn) SetWriteBuffer(int) error               { return nil }

// CloseRead discards further inbound data (no effect on the peer).
func (c *Conn) CloseRead() error { return nil }

// Abort resets the connection as seen from this endpoint (RST to the peer).
//
//go:norace
func (c *Conn) Abort() {
	k := c.k
	k.enter()
	if !c.closed {
		c.closed = true
		c.wclosed = true
		if !c.reset {
			k.enqueueLocked(c.out, chunk{rst: true})
		}
		c.in.bytes -= c.in.recvN
		c.in.recv = nil
		c.in.recvN = 0
		c.in.rcond.Broadcast()
		c.in.wcond.Broadcast()
		c.out.wcond.Broadcast()
	}
	k.leave()
}

//go:norace
func (c *Conn) rdWake() {
	k := c.k
	k.enter()
	c.in.rcond.Broadcast()
	k.leave()
}

//go:norace
func (c *Conn) wrWake() {
	k := c.k
	k.enter()
	c.out.wcond.Broadcast()
	k.leave()
}

//go:norace
func (c *Conn) SetDeadline(t time.Time) error {
	c.SetReadDeadline(t)
	return c.SetWriteDeadline(t)
}

//go:norace
func (c *Conn) SetReadDeadline(t time.Time) error {
	k := c.k
	k.enter()
	if c.closed {
		k.leave()
		return opErr("set", net.ErrClosed)
	}
	c.rdl = t
	if c.rtimer != nil {
		c.rtimer.Stop()
		c.rtimer = nil
	}
	if !t.IsZero() {
		d := time.Until(t)
		if d <= 0 {
			c.in.rcond.Broadcast()
		} else {
			c.rtimer = time.AfterFunc(d, c.rdWake)
		}
	}
	k.leave()
	return nil
}

//go:norace
func (c *Conn) SetWriteDeadline(t time.Time) error {
	k := c.k
	k.enter()
	if c.closed {
		k.leave()
		return opErr("set", net.ErrClosed)
	}
	c.wdl = t
	if c.wtimer != nil {
		c.wtimer.Stop()
		c.wtimer = nil
	}
	if !t.IsZero() {
		d := time.Until(t)
		if d <= 0 {
			c.out.wcond.Broadcast()
		} else {
			c.wtimer = time.AfterFunc(d, c.wrWake)
		}
	}
	k.leave()
	return nil
}

// killNodeLocked resets every connection and closes every listener of a node.
//
//go:norace
func (k *Kernel) killNodeLocked(n *Node) {
	for _, l := range k.listeners {
		if l.node == n && !l.closed {
			l.closed = true
			l.cond.Broadcast()
		}
	}
	for _, c := range k.conns {
		if c.node == n && !c.closed {
			c.closed = true
			c.wclosed = true
			if !c.reset {
				k.enqueueLocked(c.out, chunk{rst: true})
			}
			c.in.rcond.Broadcast()
			c.in.wcond.Broadcast()
			c.out.wcond.Broadcast()
		}
	}
}

// OpenConns counts endpoints not yet closed whose remote or local address has the prefix.
//
//go:norace
func (k *Kernel) OpenConns(filter func(local, remote string, tag string) bool) int {
	k.enter()
	n := 0
	for _, c := range k.conns {
		if !c.closed && !c.reset && filter(c.local.S, c.remote.S, c.Tag) {
			n++
		}
	}
	k.leave()
	return n
}

// DialedAddrs lists every address any node dialled (resolved form), in order.
//
//go:norace
func (k *Kernel) ConnAddrs() []string {
	k.enter()
	var out []string
	for i := 0; i < len(k.conns); i += 2 {
		out = append(out, k.conns[i].toAddr)
	}
	k.leave()
	return out
}

var _ = errors.New
var _ = strings.HasPrefix
