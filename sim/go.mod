module verif/sim

go 1.26
