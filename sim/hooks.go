package sim

// Stand-ins the rewritten repository code calls instead of process-global
// facilities: sockets, exit, signals, flags, unseeded randomness, cloud
// credential discovery. Each keeps the contract of what it replaces.

import (
	"context"
	"errors"
	"flag"
	"fmt"
	"io"
	"net"
	"net/http"
	"os"
	"runtime"
	"time"
)

// ---- sockets -------------------------------------------------------------

func Dial(network, addr string) (net.Conn, error) { return K.Dial(network, addr) }

func DialContext(ctx context.Context, network, addr string) (net.Conn, error) {
	return K.DialContext(ctx, network, addr)
}

func Listen(network, addr string) (net.Listener, error) { return K.Listen(network, addr) }

func ListenAndServe(addr string, h http.Handler) error {
	if addr == "" {
		addr = ":80"
	}
	l, err := K.Listen("tcp", addr)
	if err != nil {
		return err
	}
	return http.Serve(l, h)
}

// NewTransport returns an http.Transport whose connections go through SimNet.
func NewTransport() *http.Transport {
	return &http.Transport{
		DialContext:           DialContext,
		MaxIdleConns:          100,
		IdleConnTimeout:       90 * time.Second,
		ExpectContinueTimeout: 1 * time.Second,
	}
}

// ---- exit ------------------------------------------------------------------

func Exit(code int) { K.exitNode(code, "os.Exit") }

func Fatal(v ...interface{}) { K.exitNode(1, fmt.Sprint(v...)) }

func Fatalf(format string, v ...interface{}) { K.exitNode(1, fmt.Sprintf(format, v...)) }

func Fatalln(v ...interface{}) { K.exitNode(1, fmt.Sprintln(v...)) }

// ---- signals -----------------------------------------------------------------

//go:norace
func SignalNotify(c chan<- os.Signal, sigs ...os.Signal) {
	k := K
	id := runtime.SimGoid()
	k.enter()
	g := k.gLocked(id)
	if g.node != nil {
		g.node.sigs = append(g.node.sigs, sigReg{c: c, sigs: sigs})
	}
	k.leave()
}

// ServeServer is (*http.Server).ListenAndServe over the simulated network (the
// server's timeouts apply to simulated connections as they do to real ones).
func ServeServer(srv *http.Server) error {
	addr := srv.Addr
	if addr == "" {
		addr = ":80"
	}
	l, err := Listen("tcp", addr)
	if err != nil {
		return err
	}
	return srv.Serve(l)
}

// SignalStop undoes SignalNotify for the channel: the node's signals get their
// default action again (unless another channel is still registered for them).
func SignalStop(c chan<- os.Signal) {
	k := K
	id := runtime.SimGoid()
	k.enter()
	g := k.gLocked(id)
	if g.node != nil {
		n := 0
		for i := 0; i < len(g.node.sigs); i++ {
			if g.node.sigs[i].c == c {
				continue
			}
			g.node.sigs[n] = g.node.sigs[i]
			n++
		}
		g.node.sigs = g.node.sigs[:n]
	}
	k.leave()
}

type sigReg struct {
	c    chan<- os.Signal
	sigs []os.Signal
}

// Signal delivers sig to every channel node registered for it, without
// blocking (as os/signal does).
//
//go:norace
func (k *Kernel) Signal(node string, sig os.Signal) int {
	k.enter()
	var regs []sigReg
	for _, n := range k.nodes {
		if n.Name == node && !n.dead {
			for _, sr := range n.sigs {
				regs = append(regs, sr)
			}
		}
	}
	k.logLocked("SG", 0, 0, node)
	k.leave()
	if len(regs) == 0 {
		// no handler installed: the default action terminates the process
		k.killNode(node, 130, "signal: default action")
		return 0
	}
	sent := 0
	for _, r := range regs {
		match := len(r.sigs) == 0
		for _, s := range r.sigs {
			if s == sig {
				match = true
			}
		}
		if !match {
			continue
		}
		select {
		case r.c <- sig:
			sent++
		default:
		}
	}
	return sent
}

// ---- flags -------------------------------------------------------------------

type progArg struct {
	prog string
	args []string
}

var progArgs []progArg

// SetArgs sets the command line of a program before its Main is started.
//
//go:norace
func SetArgs(prog string, args ...string) {
	K.enter()
	progArgs = append(progArgs, progArg{prog, args})
	K.leave()
}

//go:norace
func argsOf(prog string) []string {
	K.enter()
	var a []string
	for _, p := range progArgs {
		if p.prog == prog {
			a = p.args
		}
	}
	K.leave()
	return a
}

func NewFlagSet(prog string) *flag.FlagSet {
	fs := flag.NewFlagSet(prog, flag.ContinueOnError)
	fs.SetOutput(io.Discard)
	return fs
}

func ParseFlags(fs *flag.FlagSet, prog string) {
	if err := fs.Parse(argsOf(prog)); err != nil {
		K.exitNode(2, "flag: "+err.Error())
	}
}

// ---- unseeded math/rand ----------------------------------------------------------

var jitter *SubRand

//go:norace
func jit() *SubRand {
	if jitter == nil {
		jitter = &SubRand{s: K.Tape.Seed*0x9E3779B97F4A7C15 + 77}
	}
	return jitter
}

// The top-level math/rand functions draw from one process-wide source; the
// stand-in keeps that (one shared stream) but seeds it from the tape. The
// kernel lock makes it safe for concurrent use like the original.
//
//go:norace
func RandFloat64() float64 {
	K.enter()
	v := jit().Float64()
	K.leave()
	return v
}

//go:norace
func RandInt63() int64 {
	K.enter()
	v := int64(jit().Uint64() >> 1)
	K.leave()
	return v
}

//go:norace
func RandIntn(n int) int {
	K.enter()
	v := jit().Intn(n)
	K.leave()
	return v
}

//go:norace
func RandInt() int { return int(RandInt63()) }

//go:norace
func RandInt63n(n int64) int64 { return RandInt63() % n }

//go:norace
func RandInt31n(n int32) int32 { return int32(RandInt63() % int64(n)) }

// ---- cloud environment -----------------------------------------------------------

// CloudClient is what credential discovery hands to the agent: a plain client
// over SimNet (no OAuth, not on GCE). The harness may replace the factory.
var CloudClient = func() *http.Client { return &http.Client{Transport: cloudRoundTripper{}} }

// cloudRoundTripper stands for the credential-adding transport of the real
// client (oauth2.Transport with a nil base): it sends every request through
// http.DefaultTransport, so the agent's connections to the proxy share the
// connection pool and its settings with everything else in the process that
// uses the default transport (the agent's reverse proxy towards the backend).
type cloudRoundTripper struct{}

func (cloudRoundTripper) RoundTrip(r *http.Request) (*http.Response, error) {
	return http.DefaultTransport.RoundTrip(r)
}

type SDKConfig struct{}

func (*SDKConfig) Client(ctx context.Context) *http.Client { return CloudClient() }

// CloudStartupDelay is how long obtaining the cloud credentials takes (metadata
// server round trips); set by a world before it starts the agent.
var CloudStartupDelay time.Duration

func CloudSDKConfig(account string) (*SDKConfig, error) {
	if CloudStartupDelay > 0 {
		time.Sleep(CloudStartupDelay)
	}
	if GCE.On {
		return nil, errors.New("no Cloud SDK configuration on this machine")
	}
	return &SDKConfig{}, nil
}

func CloudDefaultClient(ctx context.Context, scopes ...string) (*http.Client, error) {
	return CloudClient(), nil
}

// GCE, when On, makes the process believe it runs on a Compute Engine VM: there
// is no Cloud SDK configuration, the default credentials are used, and the
// metadata server is answered by Get (which may sleep to play a slow or
// stalled metadata server). Set by a world before it starts the agent.
var GCE struct {
	On  bool
	Get func(path string) (string, error)
}

func OnGCE() bool { return GCE.On }

func MetadataGet(path string) (string, error) {
	if GCE.On && GCE.Get != nil {
		return GCE.Get(path)
	}
	return "", errors.New("not on GCE")
}

// TapeReader is an io.Reader over a tape-derived stream, safe for concurrent
// use without ordering its callers.
type TapeReader struct{ R *SubRand }

//go:norace
func (t *TapeReader) Read(p []byte) (int, error) {
	K.enter()
	n, err := t.R.Read(p)
	K.leave()
	return n, err
}

// Crash kills every program running on the node at once (power loss, kill -9):
// its goroutines stop, its listeners and connections are gone (peers see
// resets). A program spawned under the same name afterwards is a fresh start.
func (k *Kernel) Crash(node string) { k.killNode(node, 137, HarnessKill) }

// HarnessKill is the exit message of a node the harness crashed on purpose.
const HarnessKill = "killed by the harness"

// killNode terminates a node from outside (default signal action, harness kill).
//
//go:norace
func (k *Kernel) killNode(node string, code int, msg string) {
	k.enter()
	for _, n := range k.nodes {
		if n.Name == node && !n.dead {
			n.dead = true
			k.killNodeLocked(n)
			k.seq++
			k.Exits = append(k.Exits, ExitRec{Node: node, At: time.Since(k.epoch), Seq: k.seq, Code: code, Msg: msg})
			k.logLocked("X", int64(code), 0, node)
		}
	}
	k.leave()
	k.poke()
}
