#!/bin/bash
# Creates /verif/third_party/appengine_v2_sim: a copy of the cached
# google.golang.org/appengine/v2 module plus the platform stub (platform/simplatform)
# and two small exports (the per-request handler; module name from the request).
set -e
cd "$(dirname "$0")"
SRC=$(ls -d /root/go/pkg/mod/google.golang.org/appengine/v2@v2.0.2)
DST=third_party/appengine_v2_sim
rm -rf "$DST"
mkdir -p third_party
cp -r "$SRC" "$DST"
chmod -R u+w "$DST"
rm -rf "$DST/aetest" "$DST/cmd"
cat > "$DST/internal/zz_sim_export.go" <<'EOG'
package internal

import "net/http"

// HandleHTTP exposes the platform's per-request handler to the simulated platform.
func HandleHTTP(w http.ResponseWriter, r *http.Request) { handleHTTP(w, r) }
EOG
python3 - "$DST/internal/identity.go" <<'EOP'
import sys
p=sys.argv[1]
s=open(p).read()
old='func ModuleName(_ netcontext.Context) string {\n'
new='func ModuleName(ctx netcontext.Context) string {\n\t// simulated platform: several services of the app run in one process\n\tif h := ctxHeaders(ctx); h != nil {\n\t\tif s := h.Get("X-Sim-Service"); s != "" {\n\t\t\treturn s\n\t\t}\n\t}\n'
assert s.count(old)==1
open(p,'w').write(s.replace(old,new))
EOP
cp -r platform/simplatform "$DST/simplatform"
echo third_party ok
